#!/bin/bash
# Runs every registered check of MANIFEST.json in the given tier, sequentially; prints one line per check.
# usage: tools/run_all.sh quick|thorough [ids...]
cd "$(dirname "$0")/.."
TIER="${1:-quick}"; shift
IDS="$@"
if [ -z "$IDS" ]; then IDS=$(python3 -c "import json; print(' '.join(c['property_id'] for c in json.load(open('MANIFEST.json'))['checks']))"); fi
mkdir -p .work/logs
for id in $IDS; do
  t0=$(date +%s)
  ./check $id --tier $TIER > .work/logs/all-$TIER-$id.log 2>&1
  rc=$?
  t1=$(date +%s)
  echo "$id tier=$TIER exit=$rc secs=$((t1-t0)) $(grep -c '^VIOLATION' .work/logs/all-$TIER-$id.log) violations, $(grep -c '^KNOWN-FINDING' .work/logs/all-$TIER-$id.log) known"
done
