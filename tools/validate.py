#!/usr/bin/env python3
"""validate MANIFEST.json and evidence/*.json against the given schemas (run with python3-vt)"""
import json, sys, glob, jsonschema
ok = True
m = json.load(open('/verif/MANIFEST.json'))
jsonschema.validate(m, json.load(open('/root/.vp/MANIFEST.schema.json')))
props = [json.loads(l)['id'] for l in open('/verif/properties.jsonl')]
claimed = [c['property_id'] for c in m['checks']]
na = [n['property_id'] for n in m.get('not_applicable', [])]
assert sorted(claimed + na) == sorted(props), (sorted(claimed + na), 'vs', sorted(props))
es = json.load(open('/root/.vp/EVIDENCE.schema.json'))
for f in sorted(glob.glob('/verif/evidence/*.json')):
    try:
        jsonschema.validate(json.load(open(f)), es)
        print('ok', f)
    except Exception as e:
        ok = False
        print('INVALID', f, str(e)[:300])
print('manifest ok; claimed', claimed)
sys.exit(0 if ok else 1)
