//! vmrun — thin wrapper around the real fuel-vm interpreter, used by the SV engine for
//! (1) the initial machine state of a script transaction and (2) concrete replays.
//!
//! Protocol: one JSON request per stdin line, one JSON reply per stdout line.
//!   {"op":"init","bytecode":"<hex>","data":"<hex>"}
//!        -> {"regs":[..16 u64..],"mem":"<hex of memory[0..$ssp]>"}
//!   {"op":"run","bytecode":"<hex>","data":"<hex>"}
//!        -> {"receipts":[{...}], "state":"..."}
use fuel_tx::{self as tx, ConsensusParameters, Finalizable, Receipt};
use fuel_vm::{
    checked_transaction::builder::TransactionBuilderExt,
    interpreter::{Interpreter, InterpreterParams, MemoryInstance, NotSupportedEcal},
    prelude::*,
    storage::MemoryStorage,
};
use rand::{Rng, SeedableRng};
use serde_json::{json, Value};
use std::io::{BufRead, Write};

type Interp = Interpreter<MemoryInstance, MemoryStorage, tx::Script, NotSupportedEcal>;

fn params() -> ConsensusParameters {
    use fuel_tx::consensus_parameters::*;
    let script_params = ScriptParameters::DEFAULT
        .with_max_script_length(u64::MAX)
        .with_max_script_data_length(u64::MAX);
    let tx_params = TxParameters::DEFAULT
        .with_max_gas_per_tx(u64::MAX)
        .with_max_size(u64::MAX);
    ConsensusParameters::V1(ConsensusParametersV1 {
        script_params,
        tx_params,
        block_gas_limit: u64::MAX,
        ..Default::default()
    })
}

fn contract_id_of(code: &[u8]) -> ContractId {
    let contract = tx::Contract::from(code.to_vec());
    let root = contract.root();
    let slots: Vec<tx::StorageSlot> = vec![];
    let state_root = tx::Contract::initial_state_root(slots.iter());
    tx::Contract::id(&tx::Salt::zeroed(), &root, &state_root)
}

fn build(bytecode: Vec<u8>, data: Vec<u8>) -> Result<(Interp, fuel_vm::checked_transaction::Ready<tx::Script>), String> {
    build_with_contract(bytecode, data, None)
}

fn build_with_contract(bytecode: Vec<u8>, data: Vec<u8>, contract: Option<Vec<u8>>) -> Result<(Interp, fuel_vm::checked_transaction::Ready<tx::Script>), String> {
    let rng = &mut rand::rngs::StdRng::seed_from_u64(1);
    let secret_key = SecretKey::random(rng);
    let utxo_id = rng.gen();
    let tx_pointer = rng.gen();
    let params = params();
    let mut b = tx::TransactionBuilder::script(bytecode, data);
    b.with_params(params.clone())
        .add_unsigned_coin_input(secret_key, utxo_id, 1, tx::AssetId::BASE, tx_pointer)
        .maturity(1.into());
    let mut storage = MemoryStorage::default();
    if let Some(code) = &contract {
        use fuel_vm::fuel_storage::StorageAsMut;
        let id = contract_id_of(code);
        storage
            .storage_as_mut::<fuel_vm::storage::ContractsRawCode>()
            .insert(&id, code.as_slice())
            .map_err(|e| format!("{e:?}"))?;
        b.add_input(tx::Input::contract(
            tx::UtxoId::new(tx::Bytes32::zeroed(), 0),
            tx::Bytes32::zeroed(),
            tx::Bytes32::zeroed(),
            tx::TxPointer::new(0u32.into(), 0),
            id,
        ))
        .add_output(tx::Output::Contract(tx::output::contract::Contract {
            input_index: 1,
            balance_root: tx::Bytes32::zeroed(),
            state_root: tx::Bytes32::zeroed(),
        }));
    }
    let tmp = b.clone().finalize();
    use fuel_tx::Chargeable;
    let max_gas = tmp.max_gas(params.gas_costs(), params.fee_params()) + 1;
    b.script_gas_limit(params.tx_params().max_gas_per_tx() - max_gas);
    let block_height = (u32::MAX >> 1).into();
    let txr = b
        .finalize_checked(block_height)
        .into_ready(0, params.gas_costs(), params.fee_params(), None)
        .map_err(|e| format!("{e:?}"))?;
    let ip = InterpreterParams::new(0, &params);
    let interp: Interp = Interpreter::with_storage(MemoryInstance::new(), storage, ip);
    Ok((interp, txr))
}

fn receipt_json(r: &Receipt) -> Value {
    match r {
        Receipt::Return { val, id, .. } => json!({"kind":"return","val":val,"id":hex::encode(id.as_ref())}),
        Receipt::ReturnData { data, id, .. } => {
            json!({"kind":"return_data","id":hex::encode(id.as_ref()),"data":hex::encode(data.as_ref().map(|d| d.to_vec()).unwrap_or_default())})
        }
        Receipt::Revert { ra, id, .. } => json!({"kind":"revert","val":ra,"id":hex::encode(id.as_ref())}),
        Receipt::Panic { reason, id, .. } => {
            json!({"kind":"panic","id":hex::encode(id.as_ref()),"reason":format!("{:?}", reason.reason())})
        }
        Receipt::Call { to, param1, param2, .. } => json!({"kind":"call","to":hex::encode(to.as_ref()),"param1":param1,"param2":param2}),
        Receipt::Log { ra, rb, rc, rd, .. } => json!({"kind":"log","ra":ra,"rb":rb,"rc":rc,"rd":rd}),
        Receipt::LogData { ra, rb, data, .. } => {
            json!({"kind":"log_data","ra":ra,"rb":rb,"data":hex::encode(data.as_ref().map(|d| d.to_vec()).unwrap_or_default())})
        }
        Receipt::MessageOut { recipient, amount, data, .. } => {
            json!({"kind":"message_out","recipient":hex::encode(recipient.as_ref()),"amount":amount,"data":hex::encode(data.as_ref().map(|d| d.to_vec()).unwrap_or_default())})
        }
        Receipt::ScriptResult { result, .. } => json!({"kind":"script_result","result":format!("{:?}", result)}),
        other => json!({"kind":"other","debug":format!("{:?}", other)}),
    }
}

fn handle(req: &Value) -> Result<Value, String> {
    let op = req["op"].as_str().ok_or("missing op")?;
    let bytecode = hex::decode(req["bytecode"].as_str().ok_or("missing bytecode")?).map_err(|e| e.to_string())?;
    let data = hex::decode(req["data"].as_str().unwrap_or("")).map_err(|e| e.to_string())?;
    if op == "contract_id" {
        return Ok(json!({"id": hex::encode(contract_id_of(&bytecode).as_ref())}));
    }
    let contract = match req["contract"].as_str() {
        Some(c) => Some(hex::decode(c).map_err(|e| e.to_string())?),
        None => None,
    };
    let (mut interp, txr) = build_with_contract(bytecode, data, contract)?;
    match op {
        "init" => {
            interp.set_single_stepping(true);
            let st = interp.transact(txr).map(|t| format!("{:?}", t.state())).map_err(|e| format!("{e:?}"))?;
            let regs: Vec<u64> = interp.registers().iter().take(16).copied().collect();
            let ssp = regs[4] as usize;
            let mem: Vec<u8> = interp.memory().read(0usize, ssp).map_err(|e| format!("{e:?}"))?.to_vec();
            Ok(json!({"regs": regs, "mem": hex::encode(mem), "state": st}))
        }
        "run" => {
            let res = interp.transact(txr);
            let (state, receipts) = match res {
                Ok(t) => (format!("{:?}", t.state()), t.receipts().to_vec()),
                Err(e) => (format!("error {e:?}"), interp.receipts().to_vec()),
            };
            let rs: Vec<Value> = receipts.iter().map(receipt_json).collect();
            Ok(json!({"state": state, "receipts": rs}))
        }
        _ => Err(format!("unknown op {op}")),
    }
}

fn main() {
    let stdin = std::io::stdin();
    let stdout = std::io::stdout();
    for line in stdin.lock().lines() {
        let line = match line { Ok(l) => l, Err(_) => break };
        if line.trim().is_empty() { continue; }
        let reply = match serde_json::from_str::<Value>(&line) {
            Ok(req) => match handle(&req) {
                Ok(v) => v,
                Err(e) => json!({"error": e}),
            },
            Err(e) => json!({"error": format!("bad json: {e}")}),
        };
        let mut out = stdout.lock();
        writeln!(out, "{}", reply).unwrap();
        out.flush().unwrap();
    }
}
