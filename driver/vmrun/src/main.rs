//! vmrun — thin wrapper around the real fuel-vm interpreter, used by the SV engine for
//! (1) the initial machine state of a script transaction and (2) concrete replays.
//!
//! Protocol: one JSON request per stdin line, one JSON reply per stdout line.
//!   {"op":"init","bytecode":"<hex>","data":"<hex>"}
//!        -> {"regs":[..16 u64..],"mem":"<hex of memory[0..$ssp]>"}
//!   {"op":"run","bytecode":"<hex>","data":"<hex>"}
//!        -> {"receipts":[{...}], "state":"..."}
use fuel_tx::{self as tx, ConsensusParameters, Finalizable, Receipt};
use fuel_vm::{
    checked_transaction::builder::TransactionBuilderExt,
    interpreter::{Interpreter, InterpreterParams, MemoryInstance, NotSupportedEcal},
    prelude::*,
    storage::MemoryStorage,
};
use rand::{Rng, SeedableRng};
use serde_json::{json, Value};
use std::io::{BufRead, Write};

type Interp = Interpreter<MemoryInstance, MemoryStorage, tx::Script, NotSupportedEcal>;

fn params() -> ConsensusParameters {
    use fuel_tx::consensus_parameters::*;
    let script_params = ScriptParameters::DEFAULT
        .with_max_script_length(u64::MAX)
        .with_max_script_data_length(u64::MAX);
    let tx_params = TxParameters::DEFAULT
        .with_max_gas_per_tx(u64::MAX)
        .with_max_size(u64::MAX);
    ConsensusParameters::V1(ConsensusParametersV1 {
        script_params,
        tx_params,
        block_gas_limit: u64::MAX,
        ..Default::default()
    })
}

fn build(bytecode: Vec<u8>, data: Vec<u8>) -> Result<(Interp, fuel_vm::checked_transaction::Ready<tx::Script>), String> {
    let rng = &mut rand::rngs::StdRng::seed_from_u64(1);
    let secret_key = SecretKey::random(rng);
    let utxo_id = rng.gen();
    let tx_pointer = rng.gen();
    let params = params();
    let mut b = tx::TransactionBuilder::script(bytecode, data);
    b.with_params(params.clone())
        .add_unsigned_coin_input(secret_key, utxo_id, 1, tx::AssetId::BASE, tx_pointer)
        .maturity(1.into());
    let tmp = b.clone().finalize();
    use fuel_tx::Chargeable;
    let max_gas = tmp.max_gas(params.gas_costs(), params.fee_params()) + 1;
    b.script_gas_limit(params.tx_params().max_gas_per_tx() - max_gas);
    let block_height = (u32::MAX >> 1).into();
    let txr = b
        .finalize_checked(block_height)
        .into_ready(0, params.gas_costs(), params.fee_params(), None)
        .map_err(|e| format!("{e:?}"))?;
    let ip = InterpreterParams::new(0, &params);
    let interp: Interp = Interpreter::with_storage(MemoryInstance::new(), MemoryStorage::default(), ip);
    Ok((interp, txr))
}

fn receipt_json(r: &Receipt) -> Value {
    match r {
        Receipt::Return { val, .. } => json!({"kind":"return","val":val}),
        Receipt::ReturnData { data, .. } => {
            json!({"kind":"return_data","data":hex::encode(data.as_ref().map(|d| d.to_vec()).unwrap_or_default())})
        }
        Receipt::Revert { ra, .. } => json!({"kind":"revert","val":ra}),
        Receipt::Panic { reason, .. } => {
            json!({"kind":"panic","reason":format!("{:?}", reason.reason())})
        }
        Receipt::Log { ra, rb, rc, rd, .. } => json!({"kind":"log","ra":ra,"rb":rb,"rc":rc,"rd":rd}),
        Receipt::LogData { ra, rb, data, .. } => {
            json!({"kind":"log_data","ra":ra,"rb":rb,"data":hex::encode(data.as_ref().map(|d| d.to_vec()).unwrap_or_default())})
        }
        Receipt::ScriptResult { result, .. } => json!({"kind":"script_result","result":format!("{:?}", result)}),
        other => json!({"kind":"other","debug":format!("{:?}", other)}),
    }
}

fn handle(req: &Value) -> Result<Value, String> {
    let op = req["op"].as_str().ok_or("missing op")?;
    let bytecode = hex::decode(req["bytecode"].as_str().ok_or("missing bytecode")?).map_err(|e| e.to_string())?;
    let data = hex::decode(req["data"].as_str().unwrap_or("")).map_err(|e| e.to_string())?;
    let (mut interp, txr) = build(bytecode, data)?;
    match op {
        "init" => {
            interp.set_single_stepping(true);
            let st = interp.transact(txr).map(|t| format!("{:?}", t.state())).map_err(|e| format!("{e:?}"))?;
            let regs: Vec<u64> = interp.registers().iter().take(16).copied().collect();
            let ssp = regs[4] as usize;
            let mem: Vec<u8> = interp.memory().read(0usize, ssp).map_err(|e| format!("{e:?}"))?.to_vec();
            Ok(json!({"regs": regs, "mem": hex::encode(mem), "state": st}))
        }
        "run" => {
            let res = interp.transact(txr);
            let (state, receipts) = match res {
                Ok(t) => (format!("{:?}", t.state()), t.receipts().to_vec()),
                Err(e) => (format!("error {e:?}"), interp.receipts().to_vec()),
            };
            let rs: Vec<Value> = receipts.iter().map(receipt_json).collect();
            Ok(json!({"state": state, "receipts": rs}))
        }
        _ => Err(format!("unknown op {op}")),
    }
}

fn main() {
    let stdin = std::io::stdin();
    let stdout = std::io::stdout();
    for line in stdin.lock().lines() {
        let line = match line { Ok(l) => l, Err(_) => break };
        if line.trim().is_empty() { continue; }
        let reply = match serde_json::from_str::<Value>(&line) {
            Ok(req) => match handle(&req) {
                Ok(v) => v,
                Err(e) => json!({"error": e}),
            },
            Err(e) => json!({"error": format!("bad json: {e}")}),
        };
        let mut out = stdout.lock();
        writeln!(out, "{}", reply).unwrap();
        out.flush().unwrap();
    }
}
