#!/bin/bash
# One-time (after a fresh restore) build of everything the checks need, offline.
set -e
cd "$(dirname "$0")"
HERE="$(pwd)"
REPO="${VERIF_REPO:-/repo}"
export CARGO_NET_OFFLINE=true
mkdir -p .work/logs
echo "[setup] building forc from $REPO with hooks on (cold: ~10-13 min)"
(cd "$REPO" && CARGO_TARGET_DIR="$HERE/.work/target-forc" RUSTFLAGS="--cfg fuellabs_sway_verif --check-cfg cfg(fuellabs_sway_verif)" cargo build -p forc --offline) > .work/logs/setup-forc.log 2>&1 &
P1=$!
echo "[setup] building the real-VM helper (vmrun)"
(cd driver/vmrun && CARGO_TARGET_DIR="$HERE/.work/target-vmrun" cargo build --offline) > .work/logs/setup-vmrun.log 2>&1 &
P2=$!
wait $P1 || { tail -30 .work/logs/setup-forc.log; exit 1; }
wait $P2 || { tail -30 .work/logs/setup-vmrun.log; exit 1; }
echo "[setup] done"
