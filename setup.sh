#!/bin/bash
# One-time (after a fresh restore) build of everything the checks need, offline.
set -e
cd "$(dirname "$0")"
export CARGO_NET_OFFLINE=true
mkdir -p .work/logs
echo "[setup] building forc from /repo with hooks on (cold: ~10-13 min)"
(cd /repo && CARGO_TARGET_DIR=/verif/.work/target-forc RUSTFLAGS="--cfg fuellabs_sway_verif --check-cfg cfg(fuellabs_sway_verif)" cargo build -p forc --offline) > .work/logs/setup-forc.log 2>&1 &
P1=$!
echo "[setup] building the real-VM helper (vmrun)"
(cd driver/vmrun && CARGO_TARGET_DIR=/verif/.work/target-vmrun cargo build --offline) > .work/logs/setup-vmrun.log 2>&1 &
P2=$!
wait $P1 || { tail -30 .work/logs/setup-forc.log; exit 1; }
wait $P2 || { tail -30 .work/logs/setup-vmrun.log; exit 1; }
if [ -x tools/setup_ks.sh ]; then tools/setup_ks.sh; fi
echo "[setup] done"
