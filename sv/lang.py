"""Kernel language: a small typed AST for the Sway fragment the checks quantify inputs over, with
two back ends generated from the same tree — Sway source text, and a reference evaluator that maps
the tree to z3 terms (result value + revert condition).  The reference semantics follow the Sway
documentation / sway-lib-std `ops.sw`: integer arithmetic reverts on overflow, underflow and
division by zero at every width; shifts by >= 64 (>= 256 for u256) give 0 and `<<` truncates to
the operand width; comparisons are unsigned; `&&`/`||` short-circuit; array indexing reverts
out of bounds.
"""
import z3

# ------------------------------------------------------------------------------------- types


class Ty:
    pass


class UInt(Ty):
    def __init__(self, w):
        self.w = w

    def sway(self):
        return f'u{self.w}'

    def __eq__(self, o):
        return isinstance(o, UInt) and o.w == self.w

    def __hash__(self):
        return hash(('u', self.w))

    @property
    def max(self):
        return (1 << self.w) - 1


class Bool(Ty):
    def sway(self):
        return 'bool'

    def __eq__(self, o):
        return isinstance(o, Bool)

    def __hash__(self):
        return hash('bool')


class B256(Ty):
    def sway(self):
        return 'b256'

    def __eq__(self, o):
        return isinstance(o, B256)

    def __hash__(self):
        return hash('b256')


class Unit(Ty):
    def sway(self):
        return '()'

    def __eq__(self, o):
        return isinstance(o, Unit)

    def __hash__(self):
        return hash('unit')


class Tuple(Ty):
    def __init__(self, ts):
        self.ts = list(ts)

    def sway(self):
        if len(self.ts) == 1:
            return f'({self.ts[0].sway()},)'
        return '(' + ', '.join(t.sway() for t in self.ts) + ')'

    def __eq__(self, o):
        return isinstance(o, Tuple) and o.ts == self.ts

    def __hash__(self):
        return hash(('tup', tuple(self.ts)))


class Array(Ty):
    def __init__(self, t, n):
        self.t = t
        self.n = n

    def sway(self):
        return f'[{self.t.sway()}; {self.n}]'

    def __eq__(self, o):
        return isinstance(o, Array) and o.t == self.t and o.n == self.n

    def __hash__(self):
        return hash(('arr', self.t, self.n))


class Struct(Ty):
    def __init__(self, name, fields):
        self.name = name
        self.fields = list(fields)  # [(fname, ty)]

    def sway(self):
        return self.name

    def decl(self):
        return f'struct {self.name} {{\n' + ''.join(f'    {f}: {t.sway()},\n' for f, t in self.fields) + '}\n'

    def __eq__(self, o):
        return isinstance(o, Struct) and o.name == self.name

    def __hash__(self):
        return hash(('struct', self.name))


class Enum(Ty):
    def __init__(self, name, variants):
        self.name = name
        self.variants = list(variants)  # [(vname, ty)]  ty may be Unit()

    def sway(self):
        return self.name

    def decl(self):
        return f'enum {self.name} {{\n' + ''.join(f'    {v}: {t.sway()},\n' for v, t in self.variants) + '}\n'

    def __eq__(self, o):
        return isinstance(o, Enum) and o.name == self.name

    def __hash__(self):
        return hash(('enum', self.name))


class StrArr(Ty):
    """str[N] — value: python list of N 8-bit terms"""

    def __init__(self, n):
        self.n = n

    def sway(self):
        return f'str[{self.n}]'

    def __eq__(self, o):
        return isinstance(o, StrArr) and o.n == self.n

    def __hash__(self):
        return hash(('str', self.n))


U8, U16, U32, U64, U256 = UInt(8), UInt(16), UInt(32), UInt(64), UInt(256)
BOOL = Bool()
B256T = B256()
UNIT = Unit()


def user_types(t, acc=None):
    """All struct/enum declarations reachable from t, dependencies first."""
    acc = acc if acc is not None else []
    if isinstance(t, (Tuple,)):
        for x in t.ts:
            user_types(x, acc)
    elif isinstance(t, Array):
        user_types(t.t, acc)
    elif isinstance(t, Struct):
        for _, x in t.fields:
            user_types(x, acc)
        if t not in acc:
            acc.append(t)
    elif isinstance(t, Enum):
        for _, x in t.variants:
            user_types(x, acc)
        if t not in acc:
            acc.append(t)
    return acc


# ------------------------------------------------------------------------------------- values
# spec values: UInt -> z3 BitVec(w); Bool -> z3 Bool; B256 -> BitVec(256); Unit -> None;
# Tuple/Struct/Array -> python list; Enum -> ('enum', tag BitVec(64), [payload per variant])


def default_value(t):
    if isinstance(t, UInt):
        return z3.BitVecVal(0, t.w)
    if isinstance(t, Bool):
        return z3.BoolVal(False)
    if isinstance(t, B256):
        return z3.BitVecVal(0, 256)
    if isinstance(t, Unit):
        return None
    if isinstance(t, StrArr):
        return [z3.BitVecVal(0x20, 8) for _ in range(t.n)]
    if isinstance(t, Tuple):
        return [default_value(x) for x in t.ts]
    if isinstance(t, Array):
        return [default_value(t.t) for _ in range(t.n)]
    if isinstance(t, Struct):
        return [default_value(x) for _, x in t.fields]
    if isinstance(t, Enum):
        return ('enum', z3.BitVecVal(0, 64), [default_value(x) for _, x in t.variants])
    raise TypeError(t)


def ite_value(c, a, b, t):
    if isinstance(t, (UInt, Bool, B256)):
        return z3.If(c, a, b)
    if isinstance(t, Unit):
        return None
    if isinstance(t, StrArr):
        return [z3.If(c, x, y) for x, y in zip(a, b)]
    if isinstance(t, Tuple):
        return [ite_value(c, x, y, tt) for x, y, tt in zip(a, b, t.ts)]
    if isinstance(t, Array):
        return [ite_value(c, x, y, t.t) for x, y in zip(a, b)]
    if isinstance(t, Struct):
        return [ite_value(c, x, y, tt) for x, y, (_, tt) in zip(a, b, t.fields)]
    if isinstance(t, Enum):
        return ('enum', z3.If(c, a[1], b[1]),
                [ite_value(c, x, y, tt) for x, y, (_, tt) in zip(a[2], b[2], t.variants)])
    raise TypeError(t)


def eq_value(a, b, t):
    """structural equality as z3 Bool (the semantics of derived/`std` `==` on these types)"""
    if isinstance(t, (UInt, Bool, B256)):
        return a == b
    if isinstance(t, Unit):
        return z3.BoolVal(True)
    if isinstance(t, StrArr):
        return z3.And(*[x == y for x, y in zip(a, b)]) if t.n else z3.BoolVal(True)
    if isinstance(t, Tuple):
        return z3.And(*[eq_value(x, y, tt) for x, y, tt in zip(a, b, t.ts)]) if t.ts else z3.BoolVal(True)
    if isinstance(t, Array):
        return z3.And(*[eq_value(x, y, t.t) for x, y in zip(a, b)]) if t.n else z3.BoolVal(True)
    if isinstance(t, Struct):
        return z3.And(*[eq_value(x, y, tt) for x, y, (_, tt) in zip(a, b, t.fields)])
    if isinstance(t, Enum):
        alts = []
        for i, (_, tt) in enumerate(t.variants):
            alts.append(z3.And(a[1] == i, eq_value(a[2][i], b[2][i], tt)))
        return z3.And(a[1] == b[1], z3.Or(*alts))
    raise TypeError(t)


def byte_split(bvterm, nbytes):
    return [z3.Extract(8 * (nbytes - 1 - i) + 7, 8 * (nbytes - 1 - i), bvterm) for i in range(nbytes)]


def abi_encode(v, t):
    """Fuel ABI v1 encoding of a spec value: list of alternatives [(guard, [8-bit terms])];
    guards are disjoint and exhaustive (more than one alternative only below enums)."""
    T = z3.BoolVal(True)
    if isinstance(t, UInt):
        return [(T, byte_split(v, t.w // 8))]
    if isinstance(t, Bool):
        return [(T, [z3.If(v, z3.BitVecVal(1, 8), z3.BitVecVal(0, 8))])]
    if isinstance(t, B256):
        return [(T, byte_split(v, 32))]
    if isinstance(t, Unit):
        return [(T, [])]
    if isinstance(t, StrArr):
        return [(T, list(v))]
    if isinstance(t, (Tuple, Struct, Array)):
        if isinstance(t, Tuple):
            parts = list(zip(v, t.ts))
        elif isinstance(t, Struct):
            parts = [(x, tt) for x, (_, tt) in zip(v, t.fields)]
        else:
            parts = [(x, t.t) for x in v]
        alts = [(T, [])]
        for x, tt in parts:
            nxt = []
            for g, bs in alts:
                for g2, bs2 in abi_encode(x, tt):
                    nxt.append((z3.And(g, g2), bs + bs2))
            alts = nxt
        return alts
    if isinstance(t, Enum):
        alts = []
        for i, (_, tt) in enumerate(t.variants):
            for g2, bs2 in abi_encode(v[2][i], tt):
                alts.append((z3.And(v[1] == i, g2), byte_split(z3.BitVecVal(i, 64), 8) + bs2))
        return alts
    raise TypeError(t)


def abi_size_fixed(t):
    """Encoded size if it does not depend on the value, else None."""
    if isinstance(t, UInt):
        return t.w // 8
    if isinstance(t, Bool):
        return 1
    if isinstance(t, B256):
        return 32
    if isinstance(t, Unit):
        return 0
    if isinstance(t, StrArr):
        return t.n
    if isinstance(t, Tuple):
        s = [abi_size_fixed(x) for x in t.ts]
    elif isinstance(t, Struct):
        s = [abi_size_fixed(x) for _, x in t.fields]
    elif isinstance(t, Array):
        e = abi_size_fixed(t.t)
        return None if e is None else e * t.n
    elif isinstance(t, Enum):
        s = [abi_size_fixed(x) for _, x in t.variants]
        if None in s or len(set(s)) > 1:
            return None
        return 8 + (s[0] if s else 0)
    if None in s:
        return None
    return sum(s)


def abi_decode(bs, t):
    """Decode a value of type t from a list of 8-bit terms (consumes from the front).
    Returns (value, valid_condition, rest). Only used for fixed-size input types (no enums with
    differently sized variants in argument position)."""
    if isinstance(t, UInt):
        n = t.w // 8
        return (z3.Concat(*bs[:n]) if n > 1 else bs[0]), z3.BoolVal(True), bs[n:]
    if isinstance(t, Bool):
        return bs[0] == 1, z3.ULE(bs[0], 1), bs[1:]
    if isinstance(t, B256):
        return z3.Concat(*bs[:32]), z3.BoolVal(True), bs[32:]
    if isinstance(t, Unit):
        return None, z3.BoolVal(True), bs
    if isinstance(t, StrArr):
        return list(bs[:t.n]), z3.BoolVal(True), bs[t.n:]
    if isinstance(t, (Tuple, Struct, Array)):
        if isinstance(t, Tuple):
            tys = t.ts
        elif isinstance(t, Struct):
            tys = [x for _, x in t.fields]
        else:
            tys = [t.t] * t.n
        vals, conds = [], []
        for tt in tys:
            v, c, bs = abi_decode(bs, tt)
            vals.append(v)
            conds.append(c)
        return vals, z3.And(*conds) if conds else z3.BoolVal(True), bs
    if isinstance(t, Enum):
        size = abi_size_fixed(t)
        assert size is not None, 'enum argument with differently sized variants'
        tag = z3.Concat(*bs[:8])
        body = bs[8:]
        payloads, conds = [], []
        for i, (_, tt) in enumerate(t.variants):
            v, c, _rest = abi_decode(body, tt)
            payloads.append(v)
            conds.append(z3.And(tag == i, c))
        return ('enum', tag, payloads), z3.Or(*conds), bs[size:]
    raise TypeError(t)


# ------------------------------------------------------------------------------------- AST


class Node:
    pass


class Var(Node):
    def __init__(self, name):
        self.name = name


class Lit(Node):
    def __init__(self, ty, value):
        self.ty = ty
        self.value = value


class Bin(Node):
    def __init__(self, op, l, r):
        self.op, self.l, self.r = op, l, r


class Un(Node):
    def __init__(self, op, e):
        self.op, self.e = op, e


class IfE(Node):
    def __init__(self, c, t, e):
        self.c, self.t, self.e = c, t, e


class Call(Node):
    def __init__(self, fn, args):
        self.fn, self.args = fn, list(args)


class Cast(Node):
    """widening conversions: small.as_u64() etc."""

    def __init__(self, e, to):
        self.e, self.to = e, to


class TryCast(Node):
    """u64.try_as_u8() etc -> value with fallback when it does not fit (unwrap_or)"""

    def __init__(self, e, to, fallback):
        self.e, self.to, self.fallback = e, to, fallback


class MkTuple(Node):
    def __init__(self, es):
        self.es = list(es)


class TupGet(Node):
    def __init__(self, e, i):
        self.e, self.i = e, i


class MkStruct(Node):
    def __init__(self, ty, es):
        self.ty, self.es = ty, list(es)


class Field(Node):
    def __init__(self, e, f):
        self.e, self.f = e, f


class MkArray(Node):
    def __init__(self, es):
        self.es = list(es)


class Index(Node):
    def __init__(self, e, i):
        self.e, self.i = e, i


class MkEnum(Node):
    def __init__(self, ty, variant, e=None):
        self.ty, self.variant, self.e = ty, variant, e


class Match(Node):
    """arms: [(pattern, expr)]; patterns: see Pat* below"""

    def __init__(self, e, arms):
        self.e, self.arms = e, list(arms)


class Deref(Node):
    """*r where r was bound by a ViaRef statement to `&mut target`"""

    def __init__(self, ref, target):
        self.ref, self.target = ref, target


class Block(Node):
    """{ stmts; expr }"""

    def __init__(self, stmts, e=None):
        self.stmts, self.e = list(stmts), e


# statements
class Let(Node):
    def __init__(self, name, e, mut=False, ty=None):
        self.name, self.e, self.mut, self.ty = name, e, mut, ty


class Assign(Node):
    def __init__(self, name, e):
        self.name, self.e = name, e


class AssignIndex(Node):
    def __init__(self, name, i, e):
        self.name, self.i, self.e = name, i, e


class AssignField(Node):
    def __init__(self, name, path, e):
        self.name, self.path, self.e = name, list(path), e


class ViaRef(Node):
    """let <ref> = &mut <target>; *<ref> = e;   (e may read the target through Deref)"""

    def __init__(self, ref, target, e):
        self.ref, self.target, self.e = ref, target, e


class While(Node):
    def __init__(self, c, body, bound):
        self.c, self.body, self.bound = c, list(body), bound


class IfS(Node):
    def __init__(self, c, t, e=None):
        self.c, self.t, self.e = c, list(t), (list(e) if e is not None else None)


class Break(Node):
    pass


class Continue(Node):
    pass


class Return(Node):
    def __init__(self, e):
        self.e = e


class Require(Node):
    """require(cond, code) / assert(cond)"""

    def __init__(self, c, kind='assert'):
        self.c, self.kind = c, kind


class Revert(Node):
    def __init__(self, code):
        self.code = code


class LogS(Node):
    def __init__(self, e):
        self.e = e


class ExprS(Node):
    def __init__(self, e):
        self.e = e


# patterns
class PWild(Node):
    pass


class PBind(Node):
    def __init__(self, name):
        self.name = name


class PLit(Node):
    def __init__(self, ty, value):
        self.ty, self.value = ty, value


class POr(Node):
    def __init__(self, ps):
        self.ps = list(ps)


class PTuple(Node):
    def __init__(self, ps):
        self.ps = list(ps)


class PStruct(Node):
    def __init__(self, ty, ps):
        self.ty, self.ps = ty, list(ps)  # positional, all fields


class PStructRest(Node):
    """struct pattern naming only some fields, followed by `..`"""

    def __init__(self, ty, fields):
        self.ty, self.fields = ty, list(fields)  # [(fname, pattern)]


class PEnum(Node):
    def __init__(self, ty, variant, p=None):
        self.ty, self.variant, self.p = ty, variant, p


class Fn:
    def __init__(self, name, params, ret, body, attrs=(), generics=()):
        self.name = name
        self.params = list(params)  # [(name, ty)]
        self.ret = ret
        self.body = body  # Block
        self.attrs = list(attrs)
        self.generics = list(generics)  # [(T, concrete ty used at call sites)] — emitted as <T>


# ------------------------------------------------------------------------------------- Sway emitter

def lit_sway(ty, v):
    if isinstance(ty, UInt):
        if ty.w == 256:
            return f'0x{v:064x}u256'
        return f'{v}u{ty.w}'
    if isinstance(ty, Bool):
        return 'true' if v else 'false'
    if isinstance(ty, B256):
        return f'0x{v:064x}'
    raise TypeError(ty)


BINOPS = {'+', '-', '*', '/', '%', '&', '|', '^', '<<', '>>', '==', '!=', '<', '>', '<=', '>=', '&&', '||'}


def pat_sway(p):
    if isinstance(p, PWild):
        return '_'
    if isinstance(p, PBind):
        return p.name
    if isinstance(p, PLit):
        return lit_sway(p.ty, p.value)
    if isinstance(p, POr):
        return ' | '.join(pat_sway(x) for x in p.ps)
    if isinstance(p, PTuple):
        return '(' + ', '.join(pat_sway(x) for x in p.ps) + (',)' if len(p.ps) == 1 else ')')
    if isinstance(p, PStruct):
        return p.ty.name + ' { ' + ', '.join(f'{f}: {pat_sway(x)}' for (f, _), x in zip(p.ty.fields, p.ps)) + ' }'
    if isinstance(p, PStructRest):
        return p.ty.name + ' { ' + ''.join(f'{f}: {pat_sway(x)}, ' for f, x in p.fields) + '.. }'
    if isinstance(p, PEnum):
        vt = dict(p.ty.variants)[p.variant]
        if isinstance(vt, Unit):
            return f'{p.ty.name}::{p.variant}'
        return f'{p.ty.name}::{p.variant}({pat_sway(p.p)})'
    raise TypeError(p)


def expr_sway(e, ind=1):
    pad = '    ' * ind
    if isinstance(e, Var):
        return e.name
    if isinstance(e, Lit):
        return lit_sway(e.ty, e.value)
    if isinstance(e, Bin):
        return f'({expr_sway(e.l, ind)} {e.op} {expr_sway(e.r, ind)})'
    if isinstance(e, Un):
        return f'(!{expr_sway(e.e, ind)})'
    if isinstance(e, IfE):
        return (f'if {expr_sway(e.c, ind)} {{ {expr_sway(e.t, ind)} }} else {{ {expr_sway(e.e, ind)} }}')
    if isinstance(e, Call):
        return f'{e.fn}(' + ', '.join(expr_sway(a, ind) for a in e.args) + ')'
    if isinstance(e, Cast):
        return f'{expr_sway(e.e, ind)}.as_u{e.to.w}()'
    if isinstance(e, TryCast):
        return f'{expr_sway(e.e, ind)}.try_as_u{e.to.w}().unwrap_or({expr_sway(e.fallback, ind)})'
    if isinstance(e, MkTuple):
        return '(' + ', '.join(expr_sway(x, ind) for x in e.es) + (',)' if len(e.es) == 1 else ')')
    if isinstance(e, TupGet):
        return f'{expr_sway(e.e, ind)}.{e.i}'
    if isinstance(e, MkStruct):
        return e.ty.name + ' { ' + ', '.join(f'{f}: {expr_sway(x, ind)}' for (f, _), x in zip(e.ty.fields, e.es)) + ' }'
    if isinstance(e, Field):
        return f'{expr_sway(e.e, ind)}.{e.f}'
    if isinstance(e, MkArray):
        return '[' + ', '.join(expr_sway(x, ind) for x in e.es) + ']'
    if isinstance(e, Index):
        return f'{expr_sway(e.e, ind)}[{expr_sway(e.i, ind)}]'
    if isinstance(e, MkEnum):
        vt = dict(e.ty.variants)[e.variant]
        if isinstance(vt, Unit):
            return f'{e.ty.name}::{e.variant}'
        return f'{e.ty.name}::{e.variant}({expr_sway(e.e, ind)})'
    if isinstance(e, Match):
        s = f'match {expr_sway(e.e, ind)} {{\n'
        for p, x in e.arms:
            s += f'{pad}    {pat_sway(p)} => {expr_sway(x, ind + 1)},\n'
        return s + pad + '}'
    if isinstance(e, Deref):
        return f'(*{e.ref})'
    if isinstance(e, Block):
        return block_sway(e, ind)
    raise TypeError(e)


def stmts_sway(stmts, ind):
    pad = '    ' * ind
    s = ''
    for st in stmts:
        if isinstance(st, Let):
            ty = f': {st.ty.sway()}' if st.ty is not None else ''
            s += f'{pad}let {"mut " if st.mut else ""}{st.name}{ty} = {expr_sway(st.e, ind)};\n'
        elif isinstance(st, Assign):
            s += f'{pad}{st.name} = {expr_sway(st.e, ind)};\n'
        elif isinstance(st, AssignIndex):
            s += f'{pad}{st.name}[{expr_sway(st.i, ind)}] = {expr_sway(st.e, ind)};\n'
        elif isinstance(st, AssignField):
            s += f'{pad}{st.name}.{".".join(str(x) for x in st.path)} = {expr_sway(st.e, ind)};\n'
        elif isinstance(st, ViaRef):
            s += f'{pad}let {st.ref} = &mut {st.target};\n{pad}*{st.ref} = {expr_sway(st.e, ind)};\n'
        elif isinstance(st, While):
            s += f'{pad}while {expr_sway(st.c, ind)} {{\n{stmts_sway(st.body, ind + 1)}{pad}}}\n'
        elif isinstance(st, IfS):
            s += f'{pad}if {expr_sway(st.c, ind)} {{\n{stmts_sway(st.t, ind + 1)}{pad}}}'
            if st.e is not None:
                s += f' else {{\n{stmts_sway(st.e, ind + 1)}{pad}}}'
            s += '\n'
        elif isinstance(st, Break):
            s += f'{pad}break;\n'
        elif isinstance(st, Continue):
            s += f'{pad}continue;\n'
        elif isinstance(st, Return):
            s += f'{pad}return {expr_sway(st.e, ind)};\n'
        elif isinstance(st, Require):
            if st.kind == 'assert':
                s += f'{pad}assert({expr_sway(st.c, ind)});\n'
            else:
                s += f'{pad}require({expr_sway(st.c, ind)}, 7u64);\n'
        elif isinstance(st, Revert):
            s += f'{pad}revert({st.code});\n'
        elif isinstance(st, LogS):
            s += f'{pad}log({expr_sway(st.e, ind)});\n'
        elif isinstance(st, ExprS):
            s += f'{pad}let _ = {expr_sway(st.e, ind)};\n'
        else:
            raise TypeError(st)
    return s


def block_sway(b, ind):
    pad = '    ' * ind
    s = '{\n' + stmts_sway(b.stmts, ind + 1)
    if b.e is not None:
        s += f'{pad}    {expr_sway(b.e, ind + 1)}\n'
    return s + pad + '}'


def fn_sway(f):
    s = ''.join(f'#[{a}]\n' for a in f.attrs)
    gen = ('<' + ', '.join(g for g, _ in f.generics) + '>') if f.generics else ''
    params = ', '.join(f'{n}: {t if isinstance(t, str) else t.sway()}' for n, t in f.params)
    ret = f.ret if isinstance(f.ret, str) else f.ret.sway()
    s += f'fn {f.name}{gen}({params}) -> {ret} {block_sway(f.body, 0)}\n'
    return s


# ------------------------------------------------------------------------------------- evaluator


class Spec:
    """accumulates the revert condition and the log sequence while evaluating"""

    def __init__(self, fns=None, types=None):
        self.fns = fns or {}
        self.reverts = []     # z3 Bool disjuncts
        self.logs = []        # [(guard, ty, value)]  (in program order)
        self.depth = 0
        self.fresh_on_trap = False   # if set, a trapping arithmetic op yields an unconstrained value
        self.traps = []              # [(condition under which it fires, fresh z3 constant)]

    def trap(self, guard, cond, res):
        """register a trapping operation; returns the value the evaluation continues with"""
        self.revert_if(guard, cond)
        if not self.fresh_on_trap or not z3.is_bv(res):
            return res
        f = z3.BitVec(f'trap_{len(self.traps)}', res.size())
        self.traps.append((z3.And(guard, cond), f))
        return z3.If(cond, f, res)

    def revert_if(self, guard, cond=None):
        c = guard if cond is None else z3.And(guard, cond)
        self.reverts.append(c)

    def revert_cond(self):
        return z3.simplify(z3.Or(*self.reverts)) if self.reverts else z3.BoolVal(False)


class Frame:
    def __init__(self, env, types):
        self.env = dict(env)      # name -> value
        self.types = dict(types)  # name -> Ty
        self.returned = z3.BoolVal(False)
        self.retval = None
        self.ret_ty = None


def zext(v, frm, to):
    return z3.ZeroExt(to - frm, v) if to > frm else v


def type_of(e, fr, spec):
    if isinstance(e, Var):
        return fr.types[e.name]
    if isinstance(e, Lit):
        return e.ty
    if isinstance(e, Bin):
        if e.op in ('==', '!=', '<', '>', '<=', '>=', '&&', '||'):
            return BOOL
        return type_of(e.l, fr, spec)
    if isinstance(e, Un):
        return type_of(e.e, fr, spec)
    if isinstance(e, IfE):
        return type_of(e.t, fr, spec)
    if isinstance(e, Call):
        f = spec.fns[e.fn]
        if f.generics:
            sub = dict(f.generics)
            r = f.ret
            return sub[r] if isinstance(r, str) else r
        return f.ret
    if isinstance(e, (Cast, TryCast)):
        return e.to
    if isinstance(e, MkTuple):
        return Tuple([type_of(x, fr, spec) for x in e.es])
    if isinstance(e, TupGet):
        return type_of(e.e, fr, spec).ts[e.i]
    if isinstance(e, MkStruct):
        return e.ty
    if isinstance(e, Field):
        return dict(type_of(e.e, fr, spec).fields)[e.f]
    if isinstance(e, MkArray):
        return Array(type_of(e.es[0], fr, spec), len(e.es))
    if isinstance(e, Index):
        return type_of(e.e, fr, spec).t
    if isinstance(e, MkEnum):
        return e.ty
    if isinstance(e, Match):
        # type of first arm under pattern bindings
        st = type_of(e.e, fr, spec)
        p, x = e.arms[0]
        fr2 = Frame(fr.env, fr.types)
        bind_pattern_types(p, st, fr2)
        return type_of(x, fr2, spec)
    if isinstance(e, Deref):
        return fr.types[e.target]
    if isinstance(e, Block):
        fr2 = Frame(fr.env, fr.types)
        for s in e.stmts:
            if isinstance(s, Let):
                fr2.types[s.name] = s.ty if s.ty is not None else type_of(s.e, fr2, spec)
        return type_of(e.e, fr2, spec) if e.e is not None else UNIT
    raise TypeError(e)


def bind_pattern_types(p, t, fr):
    if isinstance(p, PBind):
        fr.types[p.name] = t
    elif isinstance(p, PTuple):
        for x, tt in zip(p.ps, t.ts):
            bind_pattern_types(x, tt, fr)
    elif isinstance(p, PStruct):
        for x, (_, tt) in zip(p.ps, t.fields):
            bind_pattern_types(x, tt, fr)
    elif isinstance(p, PStructRest):
        ft = dict(t.fields)
        for f, x in p.fields:
            bind_pattern_types(x, ft[f], fr)
    elif isinstance(p, PEnum):
        if p.p is not None:
            bind_pattern_types(p.p, dict(t.variants)[p.variant], fr)
    elif isinstance(p, POr):
        bind_pattern_types(p.ps[0], t, fr)


def pattern_matches(p, v, t, binds):
    """-> z3 Bool; fills binds (name -> (value, ty)) for binding patterns."""
    if isinstance(p, PWild):
        return z3.BoolVal(True)
    if isinstance(p, PBind):
        binds[p.name] = (v, t)
        return z3.BoolVal(True)
    if isinstance(p, PLit):
        if isinstance(t, Bool):
            return v if p.value else z3.Not(v)
        return v == z3.BitVecVal(p.value, t.w if isinstance(t, UInt) else 256)
    if isinstance(p, POr):
        # variables are bound from the first alternative that matches
        conds, alts = [], []
        for x in p.ps:
            b = {}
            conds.append(pattern_matches(x, v, t, b))
            alts.append(b)
        names = set().union(*[set(b.keys()) for b in alts]) if alts else set()
        for n in names:
            val, ty_ = None, None
            for c, b in reversed(list(zip(conds, alts))):
                if n in b:
                    bv_, bt = b[n]
                    val = bv_ if val is None else ite_value(c, bv_, val, bt)
                    ty_ = bt
            binds[n] = (val, ty_)
        return z3.Or(*conds)
    if isinstance(p, PTuple):
        return z3.And(*[pattern_matches(x, vv, tt, binds) for x, vv, tt in zip(p.ps, v, t.ts)])
    if isinstance(p, PStruct):
        return z3.And(*[pattern_matches(x, vv, tt, binds) for x, vv, (_, tt) in zip(p.ps, v, t.fields)])
    if isinstance(p, PStructRest):
        names = [f for f, _ in t.fields]
        cs = [pattern_matches(x, v[names.index(f)], t.fields[names.index(f)][1], binds) for f, x in p.fields]
        return z3.And(*cs) if cs else z3.BoolVal(True)
    if isinstance(p, PEnum):
        names = [n for n, _ in t.variants]
        i = names.index(p.variant)
        c = v[1] == i
        if p.p is not None:
            c = z3.And(c, pattern_matches(p.p, v[2][i], t.variants[i][1], binds))
        return c
    raise TypeError(p)


def ev(e, fr, spec, g):
    """evaluate expression e under guard g (z3 Bool: this evaluation actually happens)"""
    if isinstance(e, Var):
        return fr.env[e.name]
    if isinstance(e, Lit):
        if isinstance(e.ty, Bool):
            return z3.BoolVal(bool(e.value))
        return z3.BitVecVal(e.value, e.ty.w if isinstance(e.ty, UInt) else 256)
    if isinstance(e, Bin):
        op = e.op
        if op == '&&':
            l = ev(e.l, fr, spec, g)
            r = ev(e.r, fr, spec, z3.And(g, l))
            return z3.And(l, r)
        if op == '||':
            l = ev(e.l, fr, spec, g)
            r = ev(e.r, fr, spec, z3.And(g, z3.Not(l)))
            return z3.Or(l, r)
        t = type_of(e.l, fr, spec)
        l = ev(e.l, fr, spec, g)
        r = ev(e.r, fr, spec, g)
        if op in ('==', '!='):
            c = eq_value(l, r, t)
            return c if op == '==' else z3.Not(c)
        if isinstance(t, Bool):
            return {'&': z3.And(l, r), '|': z3.Or(l, r), '^': z3.Xor(l, r)}[op]
        if op in ('<', '>', '<=', '>='):
            return {'<': z3.ULT, '>': z3.UGT, '<=': z3.ULE, '>=': z3.UGE}[op](l, r)
        w = t.w if isinstance(t, UInt) else 256
        if op in ('+', '*') and w < 64:
            # small widths: the mathematical result fits 64 bits; it must not exceed the type's max
            L, R = z3.ZeroExt(64 - w, l), z3.ZeroExt(64 - w, r)
            s_ = (L + R) if op == '+' else (L * R)
            return spec.trap(g, z3.UGT(s_, z3.BitVecVal((1 << w) - 1, 64)), z3.Extract(w - 1, 0, s_))
        if op == '+':
            return spec.trap(g, z3.ULT(l + r, l), l + r)
        if op == '-':
            return spec.trap(g, z3.ULT(l, r), l - r)
        if op == '*':
            return spec.trap(g, z3.Not(z3.BVMulNoOverflow(l, r, False)), l * r)
        if op in ('/', '%'):
            if w < 64:
                # same quotient/remainder, computed on the zero-extended operands
                L, R = z3.ZeroExt(64 - w, l), z3.ZeroExt(64 - w, r)
                return spec.trap(g, r == 0, z3.Extract(w - 1, 0, z3.UDiv(L, R) if op == '/' else z3.URem(L, R)))
            return spec.trap(g, r == 0, z3.UDiv(l, r) if op == '/' else z3.URem(l, r))
        if op == '&':
            return l & r
        if op == '|':
            return l | r
        if op == '^':
            return l ^ r
        if op in ('<<', '>>'):
            # shift amount is u64; VM gives 0 for amounts >= 64 (>= 256 for u256); `<<` truncates
            amt = r
            if w < 64:
                wide = z3.ZeroExt(64 - w, l)
                sh = (wide << amt) if op == '<<' else z3.LShR(wide, amt)
                return z3.Extract(w - 1, 0, sh)
            if w == 64:
                return (l << amt) if op == '<<' else z3.LShR(l, amt)
            amt256 = z3.ZeroExt(256 - 64, amt)
            return (l << amt256) if op == '<<' else z3.LShR(l, amt256)
        raise ValueError(op)
    if isinstance(e, Un):
        v = ev(e.e, fr, spec, g)
        t = type_of(e.e, fr, spec)
        return z3.Not(v) if isinstance(t, Bool) else ~v
    if isinstance(e, IfE):
        c = ev(e.c, fr, spec, g)
        a = ev(e.t, fr, spec, z3.And(g, c))
        b = ev(e.e, fr, spec, z3.And(g, z3.Not(c)))
        return ite_value(c, a, b, type_of(e.t, fr, spec))
    if isinstance(e, Cast):
        return zext(ev(e.e, fr, spec, g), type_of(e.e, fr, spec).w, e.to.w)
    if isinstance(e, TryCast):
        v = ev(e.e, fr, spec, g)
        fw = type_of(e.e, fr, spec).w
        fits = z3.ULE(v, z3.BitVecVal(e.to.max, fw))
        fb = ev(e.fallback, fr, spec, g)  # unwrap_or argument is evaluated eagerly
        return z3.If(fits, z3.Extract(e.to.w - 1, 0, v), fb)
    if isinstance(e, MkTuple):
        return [ev(x, fr, spec, g) for x in e.es]
    if isinstance(e, TupGet):
        return ev(e.e, fr, spec, g)[e.i]
    if isinstance(e, MkStruct):
        return [ev(x, fr, spec, g) for x in e.es]
    if isinstance(e, Field):
        t = type_of(e.e, fr, spec)
        i = [f for f, _ in t.fields].index(e.f)
        return ev(e.e, fr, spec, g)[i]
    if isinstance(e, MkArray):
        return [ev(x, fr, spec, g) for x in e.es]
    if isinstance(e, Index):
        t = type_of(e.e, fr, spec)
        arr = ev(e.e, fr, spec, g)
        i = ev(e.i, fr, spec, g)
        spec.revert_if(g, z3.UGE(i, z3.BitVecVal(t.n, 64)))
        res = arr[t.n - 1]
        for k in range(t.n - 2, -1, -1):
            res = ite_value(i == k, arr[k], res, t.t)
        return res
    if isinstance(e, MkEnum):
        names = [n for n, _ in e.ty.variants]
        i = names.index(e.variant)
        payloads = [default_value(tt) for _, tt in e.ty.variants]
        if e.e is not None:
            payloads[i] = ev(e.e, fr, spec, g)
        return ('enum', z3.BitVecVal(i, 64), payloads)
    if isinstance(e, Match):
        t = type_of(e.e, fr, spec)
        v = ev(e.e, fr, spec, g)
        rt = type_of(e, fr, spec)
        result = None
        nomatch = z3.BoolVal(True)
        arms = []
        for p, x in e.arms:
            binds = {}
            c = pattern_matches(p, v, t, binds)
            fr2 = fr  # bindings are arm-local; evaluate in a child frame sharing mutation-free env
            saved_env, saved_types = dict(fr.env), dict(fr.types)
            for n, (bv_, bt) in binds.items():
                fr.env[n] = bv_
                fr.types[n] = bt
            taken = z3.And(nomatch, c)
            val = ev(x, fr, spec, z3.And(g, taken))
            fr.env, fr.types = saved_env, saved_types
            arms.append((taken, val))
            nomatch = z3.And(nomatch, z3.Not(c))
        spec.revert_if(g, nomatch)  # an accepted match must be exhaustive; falling through is a violation either way
        spec.fallthrough = getattr(spec, 'fallthrough', []) + [z3.And(g, nomatch)]
        result = arms[-1][1]
        for taken, val in reversed(arms[:-1]):
            result = ite_value(taken, val, result, rt)
        return result
    if isinstance(e, Call):
        f = spec.fns[e.fn]
        args = [ev(a, fr, spec, g) for a in e.args]
        return call_fn(f, args, spec, g)
    if isinstance(e, Deref):
        return fr.env[e.target]
    if isinstance(e, Block):
        saved_env, saved_types = dict(fr.env), dict(fr.types)
        ctl = exec_stmts(e.stmts, fr, spec, g, None)
        v = ev(e.e, fr, spec, ctl.active(g)) if e.e is not None else None
        # names introduced inside the block go out of scope; assignments to outer names persist
        for k in list(fr.env.keys()):
            if k not in saved_env:
                del fr.env[k]
                fr.types.pop(k, None)
        for k in saved_types:
            fr.types[k] = saved_types[k]
        return v
    raise TypeError(e)


def call_fn(f, args, spec, g):
    spec.depth += 1
    assert spec.depth < 50
    sub = dict(f.generics)
    ptypes = [sub[t] if isinstance(t, str) else t for _, t in f.params]
    fr = Frame({n: a for (n, _), a in zip(f.params, args)}, {n: t for (n, _), t in zip(f.params, ptypes)})
    fr.ret_ty = sub[f.ret] if isinstance(f.ret, str) else f.ret
    fr.retval = default_value(fr.ret_ty)
    ctl = exec_stmts(f.body.stmts, fr, spec, g, None)
    act = ctl.active(g)
    if f.body.e is not None:
        v = ev(f.body.e, fr, spec, act)
        res = ite_value(fr.returned, fr.retval, v, fr.ret_ty) if not z3.is_false(fr.returned) else v
    else:
        res = fr.retval
    spec.depth -= 1
    return res


class Ctl:
    """control state inside a statement list: conditions under which execution left it"""

    def __init__(self):
        self.broke = z3.BoolVal(False)
        self.cont = z3.BoolVal(False)
        self.ret = z3.BoolVal(False)

    def active(self, g):
        return z3.And(g, z3.Not(self.broke), z3.Not(self.cont), z3.Not(self.ret))


def assign(fr, name, val, act):
    t = fr.types[name]
    fr.env[name] = ite_value(act, val, fr.env[name], t)


def set_path(val, t, path, new, spec, fr, g):
    """functional update of val at a path of field names / tuple indices"""
    if not path:
        return new
    h = path[0]
    if isinstance(t, Struct):
        i = [f for f, _ in t.fields].index(h)
        tt = t.fields[i][1]
    else:
        i = int(h)
        tt = t.ts[i]
    out = list(val)
    out[i] = set_path(val[i], tt, path[1:], new, spec, fr, g)
    return out


def exec_stmts(stmts, fr, spec, g, loop):
    """executes stmts under guard g; returns Ctl. `loop` is the enclosing loop's Ctl (or None)."""
    ctl = Ctl()
    for st in stmts:
        act = ctl.active(g)
        if isinstance(st, Let):
            v = ev(st.e, fr, spec, act)
            t = st.ty if st.ty is not None else type_of(st.e, fr, spec)
            fr.env[st.name] = v
            fr.types[st.name] = t
        elif isinstance(st, Assign):
            v = ev(st.e, fr, spec, act)
            assign(fr, st.name, v, act)
        elif isinstance(st, ViaRef):
            v = ev(st.e, fr, spec, act)
            assign(fr, st.target, v, act)
        elif isinstance(st, AssignIndex):
            t = fr.types[st.name]
            i = ev(st.i, fr, spec, act)
            v = ev(st.e, fr, spec, act)
            spec.revert_if(act, z3.UGE(i, z3.BitVecVal(t.n, 64)))
            arr = fr.env[st.name]
            fr.env[st.name] = [ite_value(z3.And(act, i == k), v, arr[k], t.t) for k in range(t.n)]
        elif isinstance(st, AssignField):
            t = fr.types[st.name]
            v = ev(st.e, fr, spec, act)
            new = set_path(fr.env[st.name], t, st.path, v, spec, fr, act)
            assign(fr, st.name, new, act)
        elif isinstance(st, IfS):
            c = ev(st.c, fr, spec, act)
            saved_types = dict(fr.types)
            names_before = set(fr.env.keys())
            c1 = exec_stmts(st.t, fr, spec, z3.And(act, c), loop)
            for k in list(fr.env.keys()):
                if k not in names_before:
                    del fr.env[k]
            fr.types = dict(saved_types)
            if st.e is not None:
                c2 = exec_stmts(st.e, fr, spec, z3.And(act, z3.Not(c)), loop)
                for k in list(fr.env.keys()):
                    if k not in names_before:
                        del fr.env[k]
                fr.types = dict(saved_types)
            else:
                c2 = Ctl()
            ctl.broke = z3.Or(ctl.broke, z3.And(act, c, c1.broke), z3.And(act, z3.Not(c), c2.broke))
            ctl.cont = z3.Or(ctl.cont, z3.And(act, c, c1.cont), z3.And(act, z3.Not(c), c2.cont))
            ctl.ret = z3.Or(ctl.ret, z3.And(act, c, c1.ret), z3.And(act, z3.Not(c), c2.ret))
        elif isinstance(st, While):
            running = act
            for _ in range(st.bound + 1):
                c = ev(st.c, fr, spec, running)
                it = z3.And(running, c)
                saved_types = dict(fr.types)
                names_before = set(fr.env.keys())
                bc = exec_stmts(st.body, fr, spec, it, True)
                for k in list(fr.env.keys()):
                    if k not in names_before:
                        del fr.env[k]
                fr.types = dict(saved_types)
                ctl.ret = z3.Or(ctl.ret, z3.And(it, bc.ret))
                running = z3.And(it, z3.Not(bc.broke), z3.Not(bc.ret))
            # the generator guarantees termination within `bound` iterations
            spec.unroll_residue = getattr(spec, 'unroll_residue', []) + [running]
        elif isinstance(st, Break):
            ctl.broke = z3.Or(ctl.broke, act)
        elif isinstance(st, Continue):
            ctl.cont = z3.Or(ctl.cont, act)
        elif isinstance(st, Return):
            v = ev(st.e, fr, spec, act)
            fr.retval = ite_value(act, v, fr.retval, fr.ret_ty)
            fr.returned = z3.Or(fr.returned, act)
            ctl.ret = z3.Or(ctl.ret, act)
        elif isinstance(st, Require):
            c = ev(st.c, fr, spec, act)
            spec.revert_if(act, z3.Not(c))
        elif isinstance(st, Revert):
            spec.revert_if(act)
            ctl.ret = z3.Or(ctl.ret, act)
        elif isinstance(st, LogS):
            v = ev(st.e, fr, spec, act)
            spec.logs.append((act, type_of(st.e, fr, spec), v))
        elif isinstance(st, ExprS):
            ev(st.e, fr, spec, act)
        else:
            raise TypeError(st)
    return ctl
