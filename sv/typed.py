"""SV checks over generated *typed* programs (one small package per case):
  C09/C10  ABI encoding canonical / trivial fast path sound / invalid encodings revert
  C13      configurables patched at the ABI-reported offsets
  C14      match: first matching arm, accepted => exhaustive, exhaustive => accepted
  C27      std numerics and collections vs reference models
Usage: python3-vt -m sv.typed C09 --tier quick
"""
import argparse
import collections
import json
import multiprocessing as mp
import os
import random
import re
import sys
import time
import traceback
from concurrent.futures import ThreadPoolExecutor

import z3

from .lang import *
from . import lang as L
from .common import NCPU, VmRun, build_package, ensure_forc, ensure_vmrun, load_known_findings, log, normalize_receipts, write_evidence, write_replay
from .engine import Query, bytes_differ, fixed_inputs, outcome_summary, _mentions_symbol, LIMITS_QUICK, LIMITS_THOROUGH
from .explore import Program, concrete_outcome_of_paths, explore, model_bytes, same_concrete, validate_against_vm
from .symvm import isc

from .shared import _G, _vm


class Case:
    """One program + its obligations. `make_inputs()` -> (data_terms, env, patches);
    `spec(env)` -> dict(revert=Bool, ret=alts|None, logs=[alts]|None, assume=Bool)."""

    def __init__(self, name, source, profiles=('debug', 'release'), note='', tags=()):
        self.name = name
        self.source = source
        self.profiles = profiles
        self.note = note
        self.tags = list(tags)
        self.expect_compile_error = False
        self.sample = None

    def pkg_name(self):
        return 'c' + re.sub(r'[^a-z0-9_]', '_', self.name.lower())[:40]


# ----------------------------------------------------------------------------------- type trees

def type_family(tier, seed):
    """fixed-size type trees: (name, ty)"""
    S_pad = Struct('SPad', [('a', U8), ('b', U64), ('c', BOOL), ('d', U16)])
    S_in = Struct('SIn', [('x', U32), ('y', BOOL)])
    S_out = Struct('SOut', [('p', S_in), ('q', Tuple([U8, S_in])), ('r', Array(BOOL, 2))])
    E_same = Enum('ESame', [('A', U64), ('B', U64)])
    E_unit = Enum('EUnit', [('X', UNIT), ('Y', UNIT), ('Z', UNIT)])
    E_var = Enum('EVar', [('N', UNIT), ('S', U8), ('T', Tuple([U8, U64])), ('W', S_in)])
    E_nest = Enum('ENest', [('L', E_same), ('R', E_same)])
    Opt8 = Enum('Option<u8>', [('None', UNIT), ('Some', U8)])
    Opt8.generic = True
    Res = Enum('Result<u64, bool>', [('Ok', U64), ('Err', BOOL)])
    Res.generic = True
    S_str = Struct('SStr', [('s', StrArr(3)), ('n', U8), ('t', StrArr(8))])
    fam = [
        ('u8', U8), ('u16', U16), ('u32', U32), ('u64', U64), ('u256', U256), ('bool', BOOL), ('b256', B256T),
        ('str3', StrArr(3)), ('str8', StrArr(8)),
        ('tup_u8_u64', Tuple([U8, U64])), ('tup_bool3', Tuple([BOOL, BOOL, U8])), ('tup1', Tuple([U16])),
        ('arr_u8_4', Array(U8, 4)), ('arr_bool_2', Array(BOOL, 2)), ('arr_tup', Array(Tuple([U8, U16]), 2)),
        ('s_pad', S_pad), ('s_nested', S_out), ('s_str', S_str),
        ('e_same', E_same), ('e_unit', E_unit), ('e_var', E_var), ('e_nest', E_nest),
        ('opt_u8', Opt8), ('result', Res),
        ('arr_enum', Array(E_unit, 2)), ('tup_enum_last', Tuple([U8, E_same])),
    ]
    # one hand-written AbiEncode/AbiDecode impl exists per tuple arity in codec.sw: cover every arity the
    # current source implements (elements of differing, non-word sizes so that the tuple is never trivially
    # encodable and a swapped/duplicated/skipped element index changes the bytes); several arities per program.
    fam += tuple_arity_family(tier)
    if tier == 'thorough':
        rng = random.Random(seed * 101 + 3)
        prim = [U8, U16, U32, U64, BOOL, B256T, StrArr(2)]
        for i in range(30):
            def gen(d):
                k = rng.random()
                if d == 0 or k < 0.35:
                    return rng.choice(prim)
                if k < 0.55:
                    return Tuple([gen(d - 1) for _ in range(rng.randint(1, 3))])
                if k < 0.7:
                    return Array(gen(d - 1), rng.randint(1, 3))
                if k < 0.85:
                    return Struct(f'RS{i}_{rng.randrange(10**6)}', [(f'f{j}', gen(d - 1)) for j in range(rng.randint(1, 3))])
                vs = [gen(0) for _ in range(rng.randint(2, 3))]
                sz = abi_size_fixed(vs[0])
                vs = [v for v in vs if abi_size_fixed(v) == sz]
                return Enum(f'RE{i}_{rng.randrange(10**6)}', [(f'V{j}', v) for j, v in enumerate(vs)] + [('U', vs[0])])
            fam.append((f'rand{i}', gen(3)))
    return fam


def tuple_arities():
    """arities of the tuple impls of AbiEncode found in the current tree's codec.sw"""
    from .common import REPO
    try:
        src = open(os.path.join(REPO, 'sway-lib-std/src/codec.sw')).read()
    except OSError:
        return []
    ar = set()
    for m in re.finditer(r'^impl<([A-Z, ]+)> AbiEncode for \(([A-Z, ]+),?\)', src, re.M):
        ar.add(len([x for x in m.group(2).split(',') if x.strip()]))
    return sorted(ar)


def tuple_arity_family(tier):
    cyc = [U16, U8, U32, U64]
    ars = [n for n in tuple_arities() if n >= 4]
    groups, cur, tot = [], [], 0
    for n in ars:
        if cur and tot + n > 64:
            groups.append(cur)
            cur, tot = [], 0
        cur.append(n)
        tot += n
    if cur:
        groups.append(cur)
    out = []
    for g in groups:
        ts = [Tuple([cyc[(i + n) % 4] for i in range(n)]) for n in g]
        ty = ts[0] if len(ts) == 1 else Tuple(ts)
        out.append((f'tupn_{g[0]}_{g[-1]}', ty))
    return out


def decls_for(t):
    out = ''
    for d in user_types(t, []):
        if getattr(d, 'generic', False):
            continue
        out += d.decl() + '\n'
    return out


def decode_top(bs, t):
    """like abi_decode but the top-level type may be an enum with differently sized variants.
    -> (value, valid, consumed_alternatives [(guard, nbytes)])"""
    if isinstance(t, Enum) and abi_size_fixed(t) is None:
        tag = z3.Concat(*bs[:8])
        payloads, conds, cons = [], [], []
        for i, (_, tt) in enumerate(t.variants):
            v, c, rest = abi_decode(bs[8:], tt)
            payloads.append(v)
            conds.append(z3.And(tag == i, c))
            cons.append((tag == i, len(bs) - len(rest)))
        return ('enum', tag, payloads), z3.Or(*conds), cons
    v, c, rest = abi_decode(bs, t)
    return v, c, [(z3.BoolVal(True), len(bs) - len(rest))]


def max_size(t):
    s = abi_size_fixed(t)
    if s is not None:
        return s
    if isinstance(t, Enum):
        return 8 + max(max_size(x) for _, x in t.variants)
    raise ValueError('variable-size type below top level')


def roundtrip_cases(tier, seed):
    cases = []
    for name, ty in type_family(tier, seed):
        src = 'script;\n\n' + decls_for(ty) + f'fn main(x: {ty.sway()}) -> {ty.sway()} {{\n    log(x);\n    x\n}}\n'
        c = Case(f'rt_{name}', src, note=f'decode canonical bytes of {ty.sway()}, log and return it', tags=['roundtrip'])
        n = max_size(ty)

        def make_inputs(ty=ty, n=n):
            bs = [z3.BitVec(f'x_{i}', 8) for i in range(n)]
            v, valid, cons = decode_top(bs, ty)
            return bs, {'x': v, 'bytes': bs, 'valid': valid, 'cons': cons}, {}

        def spec(env, ty=ty):
            alts = [(g, env['bytes'][:k]) for g, k in env['cons']]
            return {'revert': z3.Not(env['valid']), 'ret': alts, 'logs': [alts], 'assume': z3.BoolVal(True)}
        c.make_inputs, c.spec = make_inputs, spec
        c.sample = {'type': ty.sway(), 'encoded_size': n}
        cases.append(c)
    return cases


def dynamic_cases(tier, seed):
    """dynamic types with a concrete length n (0..2, thorough ..4) and symbolic element bytes:
    decode -> log -> return must reproduce the canonical bytes [u64 n][elements]"""
    cases = []
    fam = [('vec_u64', 'Vec<u64>', U64, ''), ('vec_u8', 'Vec<u8>', U8, ''), ('vec_bool', 'Vec<bool>', BOOL, ''),
           ('vec_tup', 'Vec<(u8, u16)>', Tuple([U8, U16]), ''), ('bytes', 'Bytes', U8, 'use std::bytes::Bytes;\n'),
           ('string', 'String', U8, 'use std::string::String;\n'), ('str', 'str', U8, ''), ('raw_slice', 'raw_slice', U8, '')]
    lens = [0, 1, 2] if tier == 'quick' else [0, 1, 2, 3, 4]
    for name, sway_ty, elem, uses in fam:
        for n in lens:
            for wrap in ('plain', 'in_tuple'):
                if wrap == 'in_tuple' and (n != 2 or name in ('str', 'raw_slice')):
                    continue
                full_ty = sway_ty if wrap == 'plain' else f'(u8, {sway_ty}, u16)'
                src = f'script;\n\n{uses}fn main(x: {full_ty}) -> {full_ty} {{\n    log(x);\n    x\n}}\n'
                c = Case(f'dyn_{name}_{n}_{wrap}', src, note=f'{full_ty} with {n} element(s): decode, log, return', tags=['roundtrip', 'dynamic'])
                esz = abi_size_fixed(elem)

                def make_inputs(n=n, elem=elem, esz=esz, wrap=wrap):
                    pre = [z3.BitVec('pre_0', 8)] if wrap == 'in_tuple' else []
                    post = [z3.BitVec(f'post_{i}', 8) for i in range(2)] if wrap == 'in_tuple' else []
                    ln = [(n >> (8 * (7 - i))) & 0xff for i in range(8)]
                    body = [z3.BitVec(f'e_{i}', 8) for i in range(n * esz)]
                    valid = []
                    rest = list(body)
                    for _ in range(n):
                        _v, ok, rest = abi_decode(rest, elem)
                        valid.append(ok)
                    data = pre + ln + body + post
                    return data, {'bytes': data, 'valid': z3.And(*valid) if valid else z3.BoolVal(True)}, {}

                def spec(env):
                    from .symvm import bv
                    alts = [(z3.BoolVal(True), [bv(b, 8) for b in env['bytes']])]
                    return {'revert': z3.Not(env['valid']), 'ret': alts, 'logs': [alts], 'assume': z3.BoolVal(True)}
                c.make_inputs, c.spec = make_inputs, spec
                c.sample = {'type': full_ty, 'elements': n}
                cases.append(c)
    return cases


def build_expr_for(ty, args, counter):
    """expression constructing a value of type ty from fresh primitive main-args (appended to args)"""
    def fresh(t):
        nm = f'p{counter[0]}'
        counter[0] += 1
        args.append((nm, t))
        return Var(nm)
    if isinstance(ty, (UInt, Bool, B256, StrArr)):
        return fresh(ty)
    if isinstance(ty, Tuple):
        return MkTuple([build_expr_for(t, args, counter) for t in ty.ts])
    if isinstance(ty, Struct):
        return MkStruct(ty, [build_expr_for(t, args, counter) for _, t in ty.fields])
    if isinstance(ty, Array):
        return MkArray([build_expr_for(ty.t, args, counter) for _ in range(ty.n)])
    if isinstance(ty, Enum):
        sel = fresh(U8)
        e = None
        for i in reversed(range(len(ty.variants))):
            vn, vt = ty.variants[i]
            mk = MkEnum(ty, vn, None if isinstance(vt, Unit) else build_expr_for(vt, args, counter))
            e = mk if e is None else IfE(Bin('==', sel, Lit(U8, i)), mk, e)
        return e
    raise TypeError(ty)


def enum_sway_name(ty):
    return ty.name


def construct_cases(tier, seed):
    cases = []
    for name, ty in type_family(tier, seed):
        if isinstance(ty, (UInt, Bool, B256, StrArr)):
            continue
        args = []
        e = build_expr_for(ty, args, [0])
        if len(args) > max(tuple_arities() or [26]):
            # main's arguments are decoded as one tuple: more arguments than the largest tuple impl is not a valid program
            continue
        body = expr_sway(e, 1)
        # generic std enums are written Option::Some(..) / Result::Ok(..)
        body = body.replace('Option<u8>::', 'Option::').replace('Result<u64, bool>::', 'Result::')
        params = ', '.join(f'{n}: {t.sway()}' for n, t in args)
        src = ('script;\n\n' + decls_for(ty) + f'fn main({params}) -> {ty.sway()} {{\n    let v: {ty.sway()} = {body};\n    log(v);\n    v\n}}\n')
        c = Case(f'mk_{name}', src, note=f'construct {ty.sway()} in memory from primitive arguments, log and return it', tags=['construct'])

        def make_inputs(args=args):
            data, env, valid = [], {}, []
            for n_, t in args:
                bs = [z3.BitVec(f'{n_}_{i}', 8) for i in range(abi_size_fixed(t))]
                v, ok, _ = abi_decode(bs, t)
                env[n_] = v
                valid.append(ok)
                data += bs
            env['__valid'] = z3.And(*valid) if valid else z3.BoolVal(True)
            return data, env, {}

        def spec(env, e=e, ty=ty, args=args):
            sp = Spec({})
            fr = Frame({n_: env[n_] for n_, _ in args}, {n_: t for n_, t in args})
            val = ev(e, fr, sp, z3.BoolVal(True))
            alts = abi_encode(val, ty)
            return {'revert': z3.Not(env['__valid']), 'ret': alts, 'logs': [alts], 'assume': z3.BoolVal(True)}
        c.make_inputs, c.spec = make_inputs, spec
        c.sample = {'type': ty.sway(), 'args': [t.sway() for _, t in args]}
        cases.append(c)
    return cases


# ----------------------------------------------------------------------------------- worker

def check_case(args):
    ci, tier, seed = args
    c = _G['cases'][ci]
    res = {'case': c.name, 'status': 'held', 'queries': 0, 'sat': 0, 'unsat': 0, 'unknown': 0, 'solver_s': 0.0, 'paths': {},
           'violations': [], 'unexplored': [], 'engine_errors': [], 'nontrivial': False, 'replayed': 0, 'steps': 0, 'tags': c.tags}
    try:
        limits = LIMITS_QUICK if tier == 'quick' else LIMITS_THOROUGH
        q = Query(limits['query_timeout_ms'])
        for prof in c.profiles:
            built = _G['builds'].get((ci, prof))
            if c.expect_compile_error:
                continue
            if built is not None and getattr(built, 'timed_out', False):
                res['unexplored'].append(f'{prof}: build timed out')
                continue
            if built is None or not built.ok:
                res['violations'].append({'what': 'valid program does not compile', 'variant': prof, 'log': (built.log[-600:] if built else '')})
                continue
            data, env, patches = c.make_inputs() if not getattr(c, 'needs_built', False) else c.make_inputs(built)
            prog = Program(built.bytecode, data, f'{c.name}/{prof}')
            prog.patches = patches
            paths, stats, sv = explore(_vm(), prog, limits)
            res['queries'] += stats['queries']
            res['solver_s'] += stats['solver_s']
            res['steps'] += stats['steps']
            res['paths'][prof] = stats['paths']
            if not patches:
                mism = validate_against_vm(_vm(), prog, paths, sv, fixed_inputs(data, seed))
                if mism:
                    res['engine_errors'].append({'variant': prof, 'mismatch': mism[:2]})
            if stats['unexplored']:
                res['unexplored'].append(f'{prof}: ' + '; '.join(sorted(set(stats['unexplored']))[:3]))
            if stats['paths'] > 1 or any(_mentions_symbol(p) for p in paths):
                res['nontrivial'] = True
            spec = c.spec(env) if not getattr(c, 'needs_built', False) else c.spec(env, built)
            ax = list(sv.axioms) + list(spec.get('axioms', []))
            reported = set()
            for p in paths:
                if not p.outcome.explored:
                    continue
                base = ax + list(p.cond) + [spec['assume']]
                checks = []
                if p.outcome.reverts:
                    checks.append(('unexpected revert', [z3.Not(spec['revert'])]))
                else:
                    checks.append(('missing revert', [spec['revert']]))
                    if spec.get('ret') is not None:
                        got = p.outcome.data if p.outcome.kind == 'returndata' else None
                        for g, want in spec['ret']:
                            d = True if got is None else bytes_differ(got, want)
                            if d is not False:
                                checks.append(('wrong return data', [z3.Not(spec['revert']), g] + ([] if d is True else [d])))
                    if spec.get('logs') is not None:
                        logs = [r for r in p.receipts if r[0] == 'logd']
                        if len(logs) != len(spec['logs']):
                            checks.append(('wrong number of logs', [z3.Not(spec['revert'])]))
                        else:
                            for lg, alts in zip(logs, spec['logs']):
                                for g, want in alts:
                                    d = bytes_differ(lg[3], want)
                                    if d is not False:
                                        checks.append(('wrong log data', [z3.Not(spec['revert']), g] + ([] if d is True else [d])))
                for what, extra in checks:
                    if what in reported:
                        continue
                    r, m = q.check(base + extra)
                    if r == z3.unknown:
                        res['unexplored'].append(f'{prof}: solver timeout ({what})')
                        continue
                    if r != z3.sat:
                        continue
                    # replay on the real VM
                    data_bytes = model_bytes(m, data)
                    bytecode = bytearray(built.bytecode)
                    for off, term in patches.items():
                        bytecode[off] = m.eval(term, model_completion=True).as_long()
                    real = normalize_receipts(_vm().run(bytes(bytecode), data_bytes))
                    res['replayed'] += 1
                    exp_rev = z3.is_true(m.eval(spec['revert'], model_completion=True))
                    ro, rl = real
                    real_rev = ro['kind'] in ('revert', 'panic')
                    bad = real_rev != exp_rev
                    detail = {'expected_revert': exp_rev}
                    if not bad and not exp_rev:
                        def ev_alts(alts):
                            for g, want in alts:
                                if z3.is_true(m.eval(g, model_completion=True)):
                                    return [m.eval(b, model_completion=True).as_long() if not isc(b) else b for b in want]
                            return None
                        if spec.get('ret') is not None:
                            want = ev_alts(spec['ret'])
                            detail['expected_return'] = want
                            if ro.get('data') != want:
                                bad = True
                        if spec.get('logs') is not None:
                            wants = [ev_alts(a) for a in spec['logs']]
                            detail['expected_logs'] = wants
                            if [l[3] for l in rl if l[0] == 'logd'] != wants:
                                bad = True
                    if bad:
                        reported.add(what)
                        v = {'what': what, 'variant': prof, 'input': data_bytes.hex(), 'real': outcome_summary(real)}
                        v.update(detail)
                        if patches:
                            v['patched_bytes'] = {str(off): bytecode[off] for off in patches}
                        res['violations'].append(v)
                    else:
                        res['engine_errors'].append({'variant': prof, 'why': 'model did not reproduce', 'what': what,
                                                     'input': data_bytes.hex(), 'real': outcome_summary(real), **detail})
        res['queries'] += q.n
        res['sat'], res['unsat'], res['unknown'] = q.sat, q.unsat, q.unknown
        res['solver_s'] += q.t
        if res['violations']:
            res['status'] = 'violation'
        elif res['engine_errors']:
            res['status'] = 'engine_error'
        elif res['unexplored']:
            res['status'] = 'partial' if res['paths'] else 'unexplored'
    except Exception as e:  # noqa
        res['status'] = 'engine_error'
        res['engine_errors'].append({'exception': repr(e), 'trace': traceback.format_exc()[-1500:]})
    return res


def run_cases(pid, cases, tier, seed, t0, assumptions, extra_cov=None, pre_results=None):
    ensure_forc()
    ensure_vmrun()
    jobs = [(ci, prof) for ci, c in enumerate(cases) for prof in c.profiles]
    uniq = {}
    for ci, prof in jobs:
        c = cases[ci]
        uniq.setdefault((c.pkg_name(), c.source, prof), []).append((ci, prof))

    def one(key):
        name, source, prof = key
        c = cases[uniq[key][0][0]]
        return key, build_package(name, source, prof, getattr(c, 'env', None), extra_toml=getattr(c, 'extra_toml', ''))
    tb = time.time()
    builds = {}
    with ThreadPoolExecutor(max_workers=NCPU) as ex:
        for key, b in ex.map(one, list(uniq.keys())):
            for j in uniq[key]:
                builds[j] = b
    log(f'[build] {len(uniq)} package builds in {time.time() - tb:.1f}s ({sum(1 for b in builds.values() if not b.ok)} failed)')
    _G['cases'] = cases
    _G['builds'] = builds
    ctx = mp.get_context('fork')
    worker = check_case
    if cases and getattr(cases[0], 'contract', False):
        from .contracts import check_contract_case as worker
    with ctx.Pool(min(NCPU, max(1, len(cases)))) as pool:
        results = pool.map(worker, [(ci, tier, seed) for ci in range(len(cases))], chunksize=1)
    results = (pre_results or []) + results
    return report(pid, cases, results, builds, tier, seed, t0, assumptions, extra_cov)


def finding_matches(f, pid, r, v):
    if f.get('property') != pid and pid not in f.get('properties', []):
        return False
    m = f.get('match', {})
    if 'case' in m and not re.fullmatch(m['case'], r['case']):
        return False
    if 'tag' in m and m['tag'] not in r.get('tags', []):
        return False
    if 'what' in m and m['what'] != v.get('what'):
        return False
    return True


def report(pid, cases, results, builds, tier, seed, t0, assumptions, extra_cov=None):
    known = load_known_findings()
    violations = 0
    engine_errors = 0
    printed = set()
    for r in results:
        for v in r['violations']:
            f = next((f for f in known.get('findings', []) if finding_matches(f, pid, r, v)), None)
            if f:
                key = f.get('id', f['what'])
                if key not in printed:
                    printed.add(key)
                    print(f"KNOWN-FINDING: property={pid} {f['what']} (case {r['case']})")
                continue
            violations += 1
            p = write_replay(pid, f"{r['case']}.{violations}", {'property': pid, 'case': r['case'], 'violation': v,
                                                               'source': next((c.source for c in cases if c.name == r['case']), None)})
            print(f'VIOLATION property={pid} replay={p}')
            print(f"  case {r['case']}: {json.dumps(v, default=str)[:700]}")
        if r['engine_errors']:
            engine_errors += 1
            log(f"ENGINE-ERROR case {r['case']}: {json.dumps(r['engine_errors'][:1], default=str)[:1500]}")
    st = collections.Counter(r['status'] for r in results)
    samples = []
    for c in cases[:: max(1, len(cases) // 6)][:6]:
        samples.append({'case': c.name, 'note': c.note, **(c.sample or {})})
    unexplored = [{'case': r['case'], 'why': r['unexplored'][:3]} for r in results if r['unexplored']]
    coverage = {
        'programs': len(results),
        'disagreements_checked': sum(r['replayed'] for r in results),
        'samples': samples,
        'evaluations': sum(r['queries'] for r in results),
        'distinct_nontrivial': sum(1 for r in results if r['nontrivial'] and r['status'] in ('held', 'partial', 'violation')),
        'rule': 'one evaluation = one solver query; a case is non-trivial if its explored outcome depends on an input byte; cases are distinct generated programs',
        'obligations': sum(r['queries'] for r in results),
        'discharged': sum(r['unsat'] for r in results),
        'solver_queries': {'total': sum(r['queries'] for r in results), 'sat': sum(r['sat'] for r in results),
                           'unsat': sum(r['unsat'] for r in results), 'unknown': sum(r['unknown'] for r in results)},
        'solver_s': round(sum(r['solver_s'] for r in results), 2),
        'vm_steps_symbolic': sum(r['steps'] for r in results),
        'status_counts': dict(st),
        'cases': [c.name for c in cases],
        'unexplored': unexplored[:60],
        'unexplored_count': len(unexplored),
        'bounds': LIMITS_QUICK if tier == 'quick' else LIMITS_THOROUGH,
        'exhaustive': False,
    }
    coverage.update(extra_cov or {})
    write_evidence(pid, tier, seed, 'translation_validation', coverage, assumptions, time.time() - t0, violations)
    log(f'[{pid}] {len(results)} cases: {dict(st)}; {coverage["solver_queries"]}; wall {time.time() - t0:.0f}s')
    if violations:
        return 1
    if engine_errors:
        print(f'ENGINE-ERROR property={pid}: {engine_errors} cases with engine/replay mismatches (see stderr)')
        return 2
    return 0


BASE_ASSUMPTIONS = [
    'SV opcode semantics (sv/symvm.py) transcribed from fuel-vm 0.66.4; validated on this run by replaying fixed inputs and every solver model on the real interpreter',
    'gas is sufficient; transaction layout does not influence program semantics',
    'programs = the generated cases for this tier/seed; the claim is for all inputs of each of these programs',
    'cases that hit a path/step/solver cap are listed as unexplored and not counted as held',
]


def main(argv=None):
    ap = argparse.ArgumentParser()
    ap.add_argument('pid')
    ap.add_argument('--tier', default=os.environ.get('VERIF_TIER', 'quick'))
    ap.add_argument('--seed', type=int, default=int(os.environ.get('VERIF_SEED', '0')))
    ap.add_argument('--case', default=None)
    ap.add_argument('--replay', default=None)
    a = ap.parse_args(argv)
    if a.replay:
        print(open(a.replay).read()[:4000])
        return 0
    t0 = time.time()
    pid, tier, seed = a.pid, a.tier, a.seed
    if pid == 'C09':
        cases = roundtrip_cases(tier, seed) + construct_cases(tier, seed) + dynamic_cases(tier, seed)
        assume = BASE_ASSUMPTIONS + ['canonical encoding = Fuel ABI v1 rules as implemented in sv/lang.py abi_encode/abi_decode; only inputs that are valid encodings are in scope for C09 (invalid ones: C10)',
                                     'dynamic types (Vec, Bytes, String, str, raw_slice) are checked with a concrete element count (0..2 quick, 0..4 thorough) and symbolic element bytes; construction of dynamic values inside Sway is covered by C27, not here']
        for c in cases:
            if 'roundtrip' in c.tags:
                old = c.spec
                c.spec = (lambda env, old=old: {**old(env), 'assume': env['valid']})
    elif pid == 'C10':
        cases = roundtrip_cases(tier, seed) + construct_cases(tier, seed) + dynamic_cases(tier, seed)
        assume = BASE_ASSUMPTIONS + ['every byte string of the encoded size is in scope: valid encodings must round-trip, invalid ones (bool byte > 1, enum tag out of range) must revert',
                                     'construct_* cases build the value with ordinary stores and let the compiler choose the (trivial or not) encoding path; the classification itself is not inspected']
    elif pid == 'C13':
        from .typed_more import configurable_cases
        cases = configurable_cases(tier, seed)
        assume = BASE_ASSUMPTIONS + ['offsets are taken from the JSON ABI written by the same build; the patched bytes are symbolic, everything else in the bytecode is concrete']
    elif pid == 'C14':
        from .typed_more import match_cases
        cases, pre = match_cases(tier, seed)
        assume = BASE_ASSUMPTIONS + ['partial: run-time first-match semantics and accepted=>exhaustive / exhaustive=>accepted on the generated match programs; unreachable-arm warnings are not claimed']
        if a.case:
            cases = [c for c in cases if re.search(a.case, c.name)]
        return run_cases(pid, cases, tier, seed, t0, assume, pre_results=pre)
    elif pid == 'C11':
        from .contracts import contract_cases
        cases = contract_cases(tier, seed)
        assume = BASE_ASSUMPTIONS + ['callee side only: the contract is entered under an emulated call frame (layout per the VM specification), validated every run against real `call`s on the real fuel-vm; the caller-side encoding done by `abi(..).method(..)` and the VM call instruction itself are outside',
                                     'method bodies are pure (no storage, no msg_sender); one symbolic method name per name length occurring in the ABI plus one absent length']
    elif pid == 'C27':
        from .typed_more import std_cases
        cases = std_cases(tier, seed)
        assume = BASE_ASSUMPTIONS + ['partial: the std functions listed in coverage.cases; collections under fixed operation sequences with symbolic element values']
    else:
        raise SystemExit(f'unknown property {pid}')
    if a.case:
        cases = [c for c in cases if re.search(a.case, c.name)]
    return run_cases(pid, cases, tier, seed, t0, assume)


def _guarded():
    try:
        return main()
    except SystemExit:
        raise
    except BaseException as e:  # machinery failure is never a verdict about the property
        import traceback
        traceback.print_exc()
        print(f'ENGINE-ERROR: {type(e).__name__}: {str(e)[:500]}')
        return 2


if __name__ == '__main__':
    sys.exit(_guarded())
