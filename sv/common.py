"""Shared infrastructure for the SV checks: hooked forc build of the current tree, package build
cache, real-VM client, evidence/violation output."""
import hashlib
import json
import os
import shutil
import subprocess
import sys
import threading
import time

VERIF = os.path.dirname(os.path.dirname(os.path.abspath(__file__)))
REPO = os.environ.get('VERIF_REPO', '/repo')
WORK = os.path.join(VERIF, '.work')
FORC_TARGET = os.path.join(WORK, 'target-forc')
FORC = os.path.join(FORC_TARGET, 'debug', 'forc')
VMRUN_TARGET = os.path.join(WORK, 'target-vmrun')
VMRUN = os.path.join(VMRUN_TARGET, 'debug', 'vmrun')
CACHE = os.path.join(WORK, 'cache')
GUARD_FLAGS = '--cfg fuellabs_sway_verif --check-cfg cfg(fuellabs_sway_verif)'
NCPU = int(os.environ.get('VERIF_JOBS', str(os.cpu_count() or 8)))

OFFLINE_ENV = {'CARGO_NET_OFFLINE': 'true'}


def log(*a):
    print(*a, file=sys.stderr, flush=True)


def sh(cmd, env=None, cwd=None, timeout=None, check=True, capture=True):
    e = dict(os.environ)
    e.update(OFFLINE_ENV)
    if env:
        e.update(env)
    r = subprocess.run(cmd, env=e, cwd=cwd, timeout=timeout, text=True,
                       stdout=subprocess.PIPE if capture else None,
                       stderr=subprocess.STDOUT if capture else None)
    if check and r.returncode != 0:
        raise RuntimeError(f'command failed ({r.returncode}): {cmd}\n{(r.stdout or "")[-4000:]}')
    return r


_forc_ready = False


def ensure_forc():
    """(Re)build forc from /repo's current working tree with the hook cfg on (incremental)."""
    global _forc_ready
    if _forc_ready:
        return
    t = time.time()
    os.makedirs(WORK, exist_ok=True)
    sh(['cargo', 'build', '-p', 'forc', '--offline'], cwd=REPO,
       env={'CARGO_TARGET_DIR': FORC_TARGET, 'RUSTFLAGS': GUARD_FLAGS}, timeout=3600)
    log(f'[build] forc (hooks on) up to date in {time.time() - t:.1f}s')
    _forc_ready = True


def ensure_vmrun():
    if not os.path.exists(VMRUN) or os.path.getmtime(VMRUN) < os.path.getmtime(
            os.path.join(VERIF, 'driver', 'vmrun', 'src', 'main.rs')):
        sh(['cargo', 'build', '--offline'], cwd=os.path.join(VERIF, 'driver', 'vmrun'),
           env={'CARGO_TARGET_DIR': VMRUN_TARGET}, timeout=3600)


_tree_key = None


def tree_key():
    """Hash identifying the compiler + std the cache entries were built with."""
    global _tree_key
    if _tree_key is None:
        h = hashlib.sha256()
        st = os.stat(FORC)
        h.update(f'{st.st_size}:{st.st_mtime_ns}'.encode())
        std = os.path.join(REPO, 'sway-lib-std')
        for root, _, files in sorted(os.walk(std)):
            for f in sorted(files):
                if f.endswith('.sw') or f.endswith('.toml'):
                    p = os.path.join(root, f)
                    h.update(p.encode())
                    h.update(open(p, 'rb').read())
        _tree_key = h.hexdigest()[:16]
    return _tree_key


FORC_TOML = '''[project]
authors = ["verif"]
entry = "main.sw"
license = "Apache-2.0"
name = "{name}"
{extra}
[dependencies]
std = {{ path = "{repo}/sway-lib-std" }}
'''


class Built:
    def __init__(self, d, name, ok, logtext):
        self.dir = d
        self.name = name
        self.ok = ok
        self.log = logtext
        self.timed_out = False

    @property
    def bytecode(self):
        return open(os.path.join(self.dir, self.name + '.bin'), 'rb').read()

    @property
    def abi(self):
        return json.load(open(os.path.join(self.dir, self.name + '-abi.json')))

    @property
    def storage_slots(self):
        p = os.path.join(self.dir, self.name + '-storage_slots.json')
        return json.load(open(p)) if os.path.exists(p) else None


def build_package(name, source, profile='debug', env=None, extra_toml='', extra_args=(),
                  extra_files=None):
    """Compile a single-file Sway package with the hooked forc. Cached on
    (compiler, std, source, profile, env)."""
    ensure_forc()
    env = dict(env or {})
    key = hashlib.sha256(json.dumps([tree_key(), name, source, profile, sorted(env.items()),
                                     extra_toml, list(extra_args),
                                     sorted((extra_files or {}).items())]).encode()).hexdigest()[:24]
    d = os.path.join(CACHE, key)
    status = os.path.join(d, 'status.json')
    if os.path.exists(status):
        s = json.load(open(status))
        return Built(os.path.join(d, 'out'), name, s['ok'], s['log'])
    tmp = d + f'.tmp{os.getpid()}.{threading.get_ident()}'
    shutil.rmtree(tmp, ignore_errors=True)
    os.makedirs(os.path.join(tmp, 'pkg', 'src'))
    open(os.path.join(tmp, 'pkg', 'Forc.toml'), 'w').write(
        FORC_TOML.format(name=name, repo=REPO, extra=extra_toml))
    open(os.path.join(tmp, 'pkg', 'src', 'main.sw'), 'w').write(source)
    for rel, text in (extra_files or {}).items():
        p = os.path.join(tmp, 'pkg', rel)
        os.makedirs(os.path.dirname(p), exist_ok=True)
        open(p, 'w').write(text)
    cmd = [FORC, 'build', '--offline', '--path', os.path.join(tmp, 'pkg'),
           '--output-directory', os.path.join(tmp, 'out')]
    if profile == 'release':
        cmd.append('--release')
    cmd += list(extra_args)
    e = {'NO_COLOR': '1', 'RUST_BACKTRACE': '0'}
    e.update(env)
    try:
        r = sh(cmd, env=e, timeout=900, check=False)
        ok = r.returncode == 0 and os.path.exists(os.path.join(tmp, 'out', name + '.bin'))
        out = r.stdout or ''
    except subprocess.TimeoutExpired:
        # not a verdict about the compiler: do not cache, report as a build that could not be done
        shutil.rmtree(tmp, ignore_errors=True)
        b = Built(os.path.join(d, 'out'), name, False, 'forc build timed out (machine overloaded?)')
        b.timed_out = True
        return b
    out = out[-6000:]
    json.dump({'ok': ok, 'log': out, 'profile': profile, 'env': env},
              open(os.path.join(tmp, 'status.json'), 'w'))
    shutil.rmtree(os.path.join(tmp, 'pkg', 'out'), ignore_errors=True)
    try:
        os.rename(tmp, d)
    except OSError:
        shutil.rmtree(tmp, ignore_errors=True)
    s = json.load(open(status))
    return Built(os.path.join(d, 'out'), name, s['ok'], s['log'])


class VmRun:
    """Client for the real fuel-vm helper (one process per client; not thread-safe)."""

    def __init__(self):
        ensure_vmrun()
        self.p = subprocess.Popen([VMRUN], stdin=subprocess.PIPE, stdout=subprocess.PIPE, text=True)
        self.calls = 0

    def _req(self, obj):
        self.calls += 1
        self.p.stdin.write(json.dumps(obj) + '\n')
        self.p.stdin.flush()
        line = self.p.stdout.readline()
        if not line:
            raise RuntimeError('vmrun died')
        r = json.loads(line)
        if 'error' in r:
            raise RuntimeError('vmrun: ' + r['error'])
        return r

    def init(self, bytecode, data):
        r = self._req({'op': 'init', 'bytecode': bytecode.hex(), 'data': data.hex()})
        return r['regs'], bytes.fromhex(r['mem'])

    def run(self, bytecode, data):
        return self._req({'op': 'run', 'bytecode': bytecode.hex(), 'data': data.hex()})

    def close(self):
        try:
            self.p.stdin.close()
            self.p.wait(timeout=5)
        except Exception:
            self.p.kill()


def normalize_receipts(reply):
    """Real-VM receipts -> (outcome dict, logs list) in the shape SV produces."""
    outcome = None
    logs = []
    for r in reply['receipts']:
        k = r['kind']
        if k == 'log':
            logs.append(('log', r['ra'], r['rb'], r['rc'], r['rd']))
        elif k == 'log_data':
            logs.append(('logd', r['ra'], r['rb'], list(bytes.fromhex(r['data']))))
        elif k == 'message_out':
            logs.append(('smo', 0, r['amount'], list(bytes.fromhex(r['recipient'])) + list(bytes.fromhex(r['data']))))
        elif k == 'return' and outcome is None:
            outcome = {'kind': 'return', 'value': r['val']}
        elif k == 'return_data' and outcome is None:
            outcome = {'kind': 'returndata', 'data': list(bytes.fromhex(r['data']))}
        elif k == 'revert' and outcome is None:
            outcome = {'kind': 'revert', 'value': r['val']}
        elif k == 'panic' and outcome is None:
            outcome = {'kind': 'panic', 'reason': r['reason']}
    if outcome is None:
        outcome = {'kind': 'none', 'state': reply.get('state')}
    return outcome, logs


# ----------------------------------------------------------------------------- evidence / findings

def load_known_findings():
    p = os.path.join(VERIF, 'known_findings.json')
    if not os.path.exists(p):
        return {'findings': [], 'fixed': []}
    return json.load(open(p))


def write_evidence(pid, tier, seed, level, coverage, assumptions, wall_s, violations):
    os.makedirs(os.path.join(VERIF, 'evidence'), exist_ok=True)
    ev = {
        'property_id': pid,
        'tier': tier,
        'seed': int(seed),
        'level': level,
        'coverage': coverage,
        'assumptions': assumptions,
        'wall_s': round(wall_s, 2),
        'violations': int(violations),
    }
    p = os.path.join(VERIF, 'evidence', pid + '.json')
    json.dump(ev, open(p + '.tmp', 'w'), indent=1, default=str)
    os.replace(p + '.tmp', p)
    return p


def write_replay(pid, name, obj):
    d = os.path.join(WORK, 'replays', pid)
    os.makedirs(d, exist_ok=True)
    p = os.path.join(d, name + '.json')
    json.dump(obj, open(p, 'w'), indent=1, default=str)
    return p
