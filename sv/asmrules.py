"""Parses the algebraic rewrite table of the asm-level constant propagation out of the current
source (`transform_operator! { OP, OPI; both_known: f; if left is C assign X; ... }`)."""
import os
import re
from .common import REPO

SRC = 'sway-core/src/asm_generation/fuel/optimizations/constant_propagate.rs'


def parse_table(path=None):
    text = open(path or os.path.join(REPO, SRC)).read()
    out = []
    for m in re.finditer(r'transform_operator!\s*\{\s*([A-Z0-9]+)\s*,\s*([A-Za-z0-9]+)\s*;(.*?)\}', text, re.S):
        op, opi, body = m.group(1), m.group(2), m.group(3)
        if op == 'gen':
            continue
        entry = {'op': op, 'opi': None if opi == 'None' else opi, 'both_known': None, 'commutative': False, 'rules': []}
        for stmt in body.split(';'):
            stmt = stmt.strip()
            if not stmt:
                continue
            mm = re.match(r'both_known:\s*(\S+)$', stmt)
            if mm:
                entry['both_known'] = mm.group(1)
                continue
            mm = re.match(r'commutative:\s*true$', stmt)
            if mm:
                entry['commutative'] = True
                continue
            mm = re.match(r'if (left|right) is (\d+) assign (left|right|\d+)$', stmt)
            if mm:
                entry['rules'].append((mm.group(1), int(mm.group(2)), mm.group(3)))
                continue
            entry.setdefault('unparsed', []).append(stmt)
        out.append(entry)
    return out


def parse_rules(path=None):
    rules = []
    for e in parse_table(path):
        for side, c, _x in e['rules']:
            rules.append((e['op'], side, c))
        if e['commutative'] or e['opi']:
            # immediate forms: exercise a small and a >12-bit constant on either side
            for c in (5, 5000):
                rules.append((e['op'], 'right', c))
                rules.append((e['op'], 'left', c))
    return rules


if __name__ == '__main__':
    import json
    print(json.dumps(parse_table(), indent=1))
    print(len(parse_rules()))
