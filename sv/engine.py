"""Property drivers on top of SV: (1) kernel vs reference semantics, (2) pairwise equivalence of
build variants of the same kernel.  Every reported violation is a solver model that has been
replayed on the real fuel-vm interpreter first."""
import json
import multiprocessing as mp
import os
import sys
import time
import traceback
from concurrent.futures import ThreadPoolExecutor

import z3

from . import corpus as C
from .common import (NCPU, VmRun, build_package, ensure_forc, ensure_vmrun, load_known_findings, log,
                     normalize_receipts, write_evidence, write_replay)
from .explore import (Program, concrete_outcome_of_paths, explore, model_bytes, same_concrete,
                      validate_against_vm)
from .symvm import bv, isc, outcomes_differ

LIMITS_QUICK = dict(max_steps=40000, max_paths=128, max_enum=16, query_timeout_ms=15000)
LIMITS_THOROUGH = dict(max_steps=120000, max_paths=512, max_enum=32, query_timeout_ms=60000)

_G = {}


def _vm():
    key = ('vm', os.getpid())
    if key not in _G:
        _G[key] = VmRun()
    return _G[key]


def bytes_differ(got, want):
    """got: list of int|bv8, want: list of bv8 -> True | False | z3 Bool"""
    if len(got) != len(want):
        return True
    ds = []
    for x, y in zip(got, want):
        ds.append(bv(x, 8) != y)
    if not ds:
        return False
    r = z3.simplify(z3.Or(*ds))
    if z3.is_true(r):
        return True
    if z3.is_false(r):
        return False
    return r


class Query:
    def __init__(self, timeout_ms):
        self.s = z3.Solver()
        self.s.set('timeout', timeout_ms)
        self.n = 0
        self.sat = 0
        self.unsat = 0
        self.unknown = 0
        self.t = 0.0

    def check(self, conds):
        self.n += 1
        t = time.time()
        self.s.push()
        for c in conds:
            if c is True:
                continue
            self.s.add(c)
        r = self.s.check()
        m = self.s.model() if r == z3.sat else None
        self.s.pop()
        self.t += time.time() - t
        if r == z3.sat:
            self.sat += 1
        elif r == z3.unsat:
            self.unsat += 1
        else:
            self.unknown += 1
        return r, m


def fixed_inputs(data_terms, seed):
    import random
    rng = random.Random(seed)
    outs = []
    for fill in ('zero', 'ff', 'rand', 'small'):
        bs = []
        for t in data_terms:
            if isc(t):
                bs.append(t)
            elif fill == 'zero':
                bs.append(0)
            elif fill == 'ff':
                bs.append(0xff)
            elif fill == 'small':
                bs.append(rng.choice([0, 0, 0, 1, 1, 2, 3]))
            else:
                bs.append(rng.randrange(256))
        outs.append(bytes(bs))
    return outs


def explore_variant(built, data_terms, limits, seed, label):
    prog = Program(built.bytecode, data_terms, label)
    paths, stats, sv = explore(_vm(), prog, limits)
    mism = validate_against_vm(_vm(), prog, paths, sv, fixed_inputs(data_terms, seed))
    return prog, paths, stats, sv, mism


def outcome_summary(real):
    o, logs = real
    return {'outcome': o, 'logs': [list(l) for l in logs]}


def observable(real):
    """what the properties compare: revert status, return data, logged values (log id + data)"""
    o, logs = real
    rev = o['kind'] in ('revert', 'panic')
    ret = None if rev else (o.get('value') if o['kind'] == 'return' else o.get('data'))
    lg = [(l[0],) + tuple(l[2:]) if l[0] == 'logd' else tuple(l) for l in logs]
    return (rev, o['kind'] if not rev else 'rev', ret, lg)


def kernel_task(args):
    """Worker: one kernel of one package under a set of variants.
    mode 'spec': each variant against the reference semantics;
    mode 'equiv': listed variant pairs against each other."""
    (pi, ki, variant_names, pairs, mode, tier, seed) = args
    res = {'pkg': None, 'kernel': None, 'status': 'held', 'queries': 0, 'sat': 0, 'unsat': 0, 'unknown': 0,
           'solver_s': 0.0, 'paths': {}, 'violations': [], 'unexplored': [], 'engine_errors': [], 'nontrivial': False,
           'replayed': 0, 'steps': 0}
    try:
        pkg = _G['corpus'][pi]
        k = pkg.kernels[ki]
        res['pkg'], res['kernel'], res['family'], res['tags'] = pkg.name, k.name, k.family, list(getattr(k, 'tags', []))
        limits = LIMITS_QUICK if tier == 'quick' else LIMITS_THOROUGH
        data, env, valid, syms = C.input_terms(pkg, ki)
        q = Query(limits['query_timeout_ms'])
        explored = {}
        for vn in variant_names:
            built = _G['builds'].get((pi, vn))
            if built is None or not built.ok:
                res['unexplored'].append(f'{vn}: build failed')
                continue
            prog, paths, stats, sv, mism = explore_variant(built, data, limits, seed, f'{pkg.name}/{k.name}/{vn}')
            res['queries'] += stats['queries']
            res['solver_s'] += stats['solver_s']
            res['steps'] += stats['steps']
            res['paths'][vn] = stats['paths']
            if mism:
                res['engine_errors'].append({'variant': vn, 'mismatch': mism[:2]})
            if stats['unexplored']:
                res['unexplored'].append(f'{vn}: ' + '; '.join(sorted(set(stats['unexplored']))[:3]))
            explored[vn] = (prog, paths, sv)
            # non-trivial: some explored path's outcome or condition mentions an input symbol
            if stats['paths'] > 1 or any(_mentions_symbol(p) for p in paths):
                res['nontrivial'] = True

        def confirm(model, involved, what, expect=None):
            """replay a model on the real VM for the involved variants; returns violation dict or None"""
            data_bytes = model_bytes(model, data)
            reals = {}
            for vn in involved:
                prog, paths, sv = explored[vn]
                real = normalize_receipts(_vm().run(prog.bytecode, data_bytes))
                reals[vn] = real
                # engine self-check on the model
                pred = concrete_outcome_of_paths(paths, [(t, data_bytes[i]) for i, t in enumerate(data) if not isc(t)], sv.axioms)
                if pred is not None and pred[1] is not None and not same_concrete(pred, real):
                    res['engine_errors'].append({'variant': vn, 'input': data_bytes.hex(), 'sv': pred, 'vm': real})
            res['replayed'] += 1
            return data_bytes, reals

        if mode == 'spec':
            spec = C.kernel_spec(pkg, k, env)
            if spec is None:
                res['status'] = 'nospec'
            else:
                for vn, (prog, paths, sv) in explored.items():
                    ax = list(sv.axioms)
                    reported = set()
                    for p in paths:
                        if not p.outcome.explored:
                            continue
                        base = ax + list(p.cond) + [valid]
                        checks = []
                        if p.outcome.reverts:
                            checks.append(('unexpected revert', [z3.Not(spec['revert'])]))
                        else:
                            checks.append(('missing revert', [spec['revert']]))
                            logs = [r for r in p.receipts if r[0] == 'logd']
                            for g, want in spec['alts']:
                                if len(logs) != 1:
                                    d = True
                                else:
                                    d = bytes_differ(logs[0][3], want)
                                if d is False:
                                    continue
                                checks.append(('wrong value', [z3.Not(spec['revert']), g] + ([] if d is True else [d])))
                        for what, extra in checks:
                            if what in reported:
                                continue  # one replayed witness per kind of violation and variant
                            r, m = q.check(base + extra)
                            if r == z3.unknown:
                                res['unexplored'].append(f'{vn}: solver timeout ({what})')
                                continue
                            if r == z3.sat:
                                data_bytes, reals = confirm(m, [vn], what)
                                # evaluate the spec under the model to state the expectation
                                exp_rev = z3.is_true(m.eval(spec['revert'], model_completion=True))
                                exp_bytes = None
                                for g, want in spec['alts']:
                                    if z3.is_true(m.eval(g, model_completion=True)):
                                        exp_bytes = [m.eval(b, model_completion=True).as_long() for b in want]
                                real = reals[vn]
                                ro, rl = real
                                real_rev = ro['kind'] in ('revert', 'panic')
                                real_logs = [l[3] for l in rl if l[0] == 'logd']
                                bad = (real_rev != exp_rev) or (not exp_rev and real_logs != [exp_bytes])
                                if bad:
                                    reported.add(what)
                                    res['violations'].append({
                                        'what': what, 'variant': vn, 'input': data_bytes.hex(),
                                        'expected': {'revert': exp_rev, 'log_data': exp_bytes},
                                        'real': outcome_summary(real)})
                                else:
                                    res['engine_errors'].append({'variant': vn, 'why': 'model did not reproduce against the spec',
                                                                 'what': what, 'input': data_bytes.hex(), 'real': outcome_summary(real)})
                                break  # one witness per path is enough
                    # coverage of the input space by explored paths is by construction (complementary forks);
                    # unexplored paths are reported above
        else:
            for (va, vb) in pairs:
                if va not in explored or vb not in explored:
                    continue
                (proga, pa, sva), (progb, pb, svb) = explored[va], explored[vb]
                ax = list(sva.axioms) + list(svb.axioms)
                found = False
                for x in pa:
                    if found:
                        break
                    if not x.outcome.explored:
                        continue
                    for y in pb:
                        if not y.outcome.explored:
                            continue
                        d = outcomes_differ(x, y)
                        if d is False:
                            continue
                        conds = ax + list(x.cond) + list(y.cond) + [valid] + ([] if d is True else [d])
                        r, m = q.check(conds)
                        if r == z3.unknown:
                            res['unexplored'].append(f'{va}~{vb}: solver timeout')
                            continue
                        if r == z3.sat:
                            data_bytes, reals = confirm(m, [va, vb], 'differ')
                            if observable(reals[va]) != observable(reals[vb]):
                                res['violations'].append({'what': 'variants differ', 'variants': [va, vb], 'input': data_bytes.hex(),
                                                          va: outcome_summary(reals[va]), vb: outcome_summary(reals[vb])})
                            else:
                                res['engine_errors'].append({'why': 'model did not reproduce', 'variants': [va, vb],
                                                             'input': data_bytes.hex()})
                            found = True
                            break
        res['queries'] += q.n
        res['sat'] += q.sat
        res['unsat'] += q.unsat
        res['unknown'] += q.unknown
        res['solver_s'] += q.t
        if res['violations']:
            res['status'] = 'violation'
        elif res['engine_errors']:
            res['status'] = 'engine_error'
        elif res['unexplored'] and res['status'] == 'held':
            res['status'] = 'partial' if explored else 'unexplored'
    except Exception as e:  # noqa
        res['status'] = 'engine_error'
        res['engine_errors'].append({'exception': repr(e), 'trace': traceback.format_exc()[-1500:]})
    return res


def _mentions_symbol(p):
    o = p.outcome
    vals = []
    if o.kind in ('return', 'revert') and not isc(o.value):
        return True
    if o.kind == 'returndata' and any(not isc(b) for b in o.data):
        return True
    for r in p.receipts:
        if r[0] in ('logd', 'smo') and (not isc(r[2]) or any(not isc(b) for b in r[3])):
            return True
        if r[0] == 'log' and any(not isc(b) for b in r[1:]):
            return True
    return False


def build_all(corpus, variants):
    """variants: {name: (profile, env)} -> {(pi, name): Built}"""
    ensure_forc()
    ensure_vmrun()
    jobs = []
    for pi, pkg in enumerate(corpus):
        src = pkg.source()
        for vn, (profile, env) in variants.items():
            jobs.append((pi, vn, pkg.name, src, profile, env))
    out = {}
    t = time.time()

    def one(j):
        pi, vn, name, src, profile, env = j
        return (pi, vn), build_package(name, src, profile, env)
    with ThreadPoolExecutor(max_workers=NCPU) as ex:
        for key, b in ex.map(one, jobs):
            out[key] = b
    log(f'[build] {len(jobs)} package builds in {time.time() - t:.1f}s '
        f'({sum(1 for b in out.values() if not b.ok)} failed)')
    return out


def run_kernels(corpus, builds, variant_names, pairs, mode, tier, seed, kernel_filter=None):
    _G['corpus'] = corpus
    _G['builds'] = builds
    tasks = []
    for pi, pkg in enumerate(corpus):
        for ki, k in enumerate(pkg.kernels):
            if kernel_filter and not kernel_filter(pkg, k):
                continue
            tasks.append((pi, ki, variant_names, pairs, mode, tier, seed))
    t = time.time()
    ctx = mp.get_context('fork')
    with ctx.Pool(min(NCPU, max(1, len(tasks)))) as pool:
        results = pool.map(kernel_task, tasks, chunksize=1)
    log(f'[sv] {len(tasks)} kernels explored in {time.time() - t:.1f}s')
    return results
