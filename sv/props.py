"""Entry point of the SV-based property checks over the kernel corpus:
    python3-vt -m sv.props C01 --tier quick
Exit codes: 0 held on everything explored (KNOWN-FINDING lines possible), 1 VIOLATION, 2 engine error.
"""
import argparse
import collections
import json
import os
import re
import sys
import time

from . import corpus as C
from . import engine as E
from .common import REPO, VERIF, load_known_findings, log, write_evidence, write_replay

IR_TAIL = ['const-demotion', 'arg-demotion', 'ret-demotion', 'misc-demotion', 'memcpyopt', 'dce']
ASM_OPTS = ['const-indexed-aggregates', 'constant-propagate', 'dce', 'simplify-cfg', 'remove-sequential-jumps',
            'remove-redundant-moves', 'remove-redundant-ops']


def registered_ir_passes():
    """names of the registered transformation passes, read from the current sources"""
    names = {}
    for root, _, files in os.walk(os.path.join(REPO, 'sway-ir', 'src')):
        for f in files:
            if f.endswith('.rs'):
                for m in re.finditer(r'pub const ([A-Z0-9_]+)_NAME: &str = "([^"]+)";', open(os.path.join(root, f)).read()):
                    names[m.group(1)] = m.group(2)
    pm = open(os.path.join(REPO, 'sway-ir', 'src', 'pass_manager.rs')).read()
    body = pm[pm.index('pub fn register_known_passes'):]
    body = body[:body.index('\n}\n')]
    analysis = {'POSTORDER', 'DOMINATORS', 'DOM_FRONTS', 'ESCAPED_SYMBOLS', 'MODULE_PRINTER', 'MODULE_VERIFIER'}
    out = []
    for m in re.finditer(r'pm\.register\(create_([a-z0-9_]+)_pass\(\)\)', body):
        key = m.group(1).upper()
        cands = [k for k in names if k == key or k.replace('_PROFILE', '') == key.replace('_PROFILE', '')]
        for k in cands:
            if k not in analysis and names[k] not in out:
                out.append(names[k])
    return out


def asm_rules():
    from .asmrules import parse_rules
    return parse_rules()


def config(pid, tier, seed):
    """-> dict(variants, pairs, mode, families)"""
    if pid == 'C01':
        return dict(variants={'debug': ('debug', {}), 'release': ('release', {})}, pairs=[], mode='spec', families=None)
    if pid == 'C02':
        return dict(variants={'debug': ('debug', {}), 'release': ('release', {})}, pairs=[('debug', 'release')],
                    mode='equiv', families=None)
    if pid == 'C03':
        passes = [p for p in registered_ir_passes() if p not in ('lower-init-aggr',)]
        variants = {'base': ('debug', {'SWAY_VERIF_IR_PASSES': ','.join(IR_TAIL)})}
        pairs = []
        for p in passes:
            if p in IR_TAIL and p not in ('dce', 'memcpyopt'):
                continue  # the mandatory demotions are part of every pipeline; checked through C01
            variants[f'pre:{p}'] = ('debug', {'SWAY_VERIF_IR_PASSES': ','.join([p] + IR_TAIL)})
            pairs.append(('base', f'pre:{p}'))
            if tier == 'thorough':
                variants[f'post:{p}'] = ('debug', {'SWAY_VERIF_IR_PASSES': ','.join(IR_TAIL + [p] + ['dce'])})
                pairs.append(('base', f'post:{p}'))
        # the real pipelines against the baseline
        variants['O0'] = ('debug', {})
        variants['O1'] = ('release', {})
        pairs += [('base', 'O0'), ('base', 'O1')]
        import random
        rng = random.Random(seed * 31 + 5)
        nrand = 3 if tier == 'quick' else 12
        opt = [p for p in passes if p not in IR_TAIL]
        for i in range(nrand):
            seq = [rng.choice(opt) for _ in range(rng.randint(2, 6))]
            variants[f'rand{i}:' + '+'.join(seq)] = ('debug', {'SWAY_VERIF_IR_PASSES': ','.join(seq + IR_TAIL)})
            pairs.append(('base', f'rand{i}:' + '+'.join(seq)))
        return dict(variants=variants, pairs=pairs, mode='equiv', families=None, passes=passes)
    if pid == 'C05':
        variants = {'debug': ('debug', {}), 'release': ('release', {})}
        pairs = []
        for prof in ('debug', 'release'):
            for stage in ('initial', 'final'):
                variants[f'{prof}:rt-{stage}'] = (prof, {'SWAY_VERIF_IR_ROUNDTRIP': stage})
                pairs.append((prof, f'{prof}:rt-{stage}'))
        return dict(variants=variants, pairs=pairs, mode='equiv', families=None)
    if pid == 'C07':
        variants = {}
        pairs = []
        for prof in ('debug', 'release'):
            variants[f'{prof}:none'] = (prof, {'SWAY_VERIF_ASM_OPT': 'none', 'SWAY_VERIF_NO_ALLOC_OPT': '1'})
            variants[f'{prof}:full'] = (prof, {})
            pairs.append((f'{prof}:none', f'{prof}:full'))
        for o in ASM_OPTS:
            variants[f'only:{o}'] = ('release', {'SWAY_VERIF_ASM_OPT': o})
            pairs.append(('release:none', f'only:{o}'))
        variants['only:alloc-opt'] = ('release', {'SWAY_VERIF_ASM_OPT': 'none'})
        pairs.append(('release:none', 'only:alloc-opt'))
        return dict(variants=variants, pairs=pairs, mode='equiv', families=None, asm=True)
    if pid == 'C08':
        variants = {'debug': ('debug', {}), 'release': ('release', {})}
        pairs = []
        for prof in ('debug', 'release'):
            variants[f'{prof}:nocoalesce'] = (prof, {'SWAY_VERIF_NO_COALESCE': '1'})
            pairs.append((prof, f'{prof}:nocoalesce'))
            spills = [(2, 0), (2, 1), (3, 1)] if tier == 'quick' else [(2, 0), (2, 1), (3, 0), (3, 1), (3, 2), (5, 2), (1, 0)]
            for m, r in spills:
                variants[f'{prof}:spill{m}.{r}'] = (prof, {'SWAY_VERIF_FORCE_SPILL': f'{m},{r}'})
                pairs.append((prof, f'{prof}:spill{m}.{r}'))
        return dict(variants=variants, pairs=pairs, mode='equiv', families=None)
    raise SystemExit(f'unknown SV corpus property {pid}')


LEVEL_TEXT = 'translation_validation'


def finding_matches(f, pid, r, v):
    if f.get('property') != pid and pid not in f.get('properties', []):
        return False
    m = f.get('match', {})
    if 'kernel' in m and not re.fullmatch(m['kernel'], r['kernel']):
        return False
    if 'family' in m and m['family'] != r.get('family'):
        return False
    if 'tag' in m and m['tag'] not in r.get('tags', []):
        return False
    if 'what' in m and m['what'] != v.get('what'):
        return False
    if 'variants' in m:
        vs = v.get('variants') or [v.get('variant')]
        if not any(re.fullmatch(m['variants'], str(x)) for x in vs):
            return False
    return True


def main(argv=None):
    ap = argparse.ArgumentParser()
    ap.add_argument('pid')
    ap.add_argument('--tier', default=os.environ.get('VERIF_TIER', 'quick'))
    ap.add_argument('--seed', type=int, default=int(os.environ.get('VERIF_SEED', '0')))
    ap.add_argument('--kernel', default=None, help='regex: restrict to matching kernels (debugging)')
    ap.add_argument('--replay', default=None)
    a = ap.parse_args(argv)
    pid, tier, seed = a.pid, a.tier, a.seed
    if a.replay:
        return replay(pid, a.replay)
    t0 = time.time()
    cfg = config(pid, tier, seed)
    rules = asm_rules() if cfg.get('asm') or pid in ('C01', 'C02') else None
    corpus = C.build_corpus(tier, seed, asm_rules=rules, families=cfg['families'])
    builds = E.build_all(corpus, cfg['variants'])
    filt = (lambda p, k: re.search(a.kernel, k.name)) if a.kernel else None
    results = E.run_kernels(corpus, builds, list(cfg['variants'].keys()), cfg['pairs'], cfg['mode'], tier, seed, filt)

    aux = aux_roundtrip_builds(cfg) if pid == 'C05' and not a.kernel else None

    known = load_known_findings()
    violations = 0
    engine_errors = 0
    lines = []
    build_fail = collections.Counter()
    for (pi, vn), b in builds.items():
        if not b.ok:
            build_fail[vn] += 1
    # a variant that fails to build while the reference variant builds is a violation for C03/C05/C07/C08
    # ("the result must still be accepted by the backend")
    ref_names = {'C03': 'base', 'C05': 'debug', 'C07': 'release:none', 'C08': 'debug'}
    build_violations = []
    if pid in ('C01', 'C02'):
        # every corpus package is a well-typed program of the fragment: both profiles must produce bytecode
        for (pi, vn), b in builds.items():
            if not b.ok and not getattr(b, 'timed_out', False):
                build_violations.append({'pkg': corpus[pi].name, 'variant': vn, 'log': b.log[-1500:]})
    if pid in ref_names:
        for (pi, vn), b in builds.items():
            if not b.ok and not getattr(b, 'timed_out', False) and builds.get((pi, ref_names[pid])) and builds[(pi, ref_names[pid])].ok:
                build_violations.append({'pkg': corpus[pi].name, 'variant': vn, 'log': b.log[-1500:]})
    if aux:
        build_violations += aux['violations']
    known_printed = set()
    for r in results:
        for v in r['violations']:
            f = next((f for f in known.get('findings', []) if finding_matches(f, pid, r, v)), None)
            if f:
                key = f.get('id', f.get('what'))
                if key not in known_printed:
                    known_printed.add(key)
                    print(f"KNOWN-FINDING: property={pid} {f['what']} (e.g. kernel {r['kernel']} input {v['input']})")
                continue
            violations += 1
            p = write_replay(pid, f"{r['pkg']}.{r['kernel']}.{violations}", {'property': pid, 'kernel': r['kernel'], 'pkg': r['pkg'],
                                                                         'violation': v, 'tier': tier, 'seed': seed})
            print(f'VIOLATION property={pid} replay={p}')
            print(f"  kernel {r['pkg']}/{r['kernel']}: {json.dumps(v, default=str)[:700]}")
        if r['engine_errors']:
            engine_errors += 1
            log(f"ENGINE-ERROR kernel {r['pkg']}/{r['kernel']}: {json.dumps(r['engine_errors'][:1], default=str)[:1200]}")
    for bv_ in build_violations:
        f = next((f for f in known.get('findings', []) if (f.get('property') == pid or pid in f.get('properties', [])) and f.get('match', {}).get('build_variant')
                  and re.fullmatch(f['match']['build_variant'], bv_['variant'])
                  and ('build_log' not in f['match'] or re.search(f['match']['build_log'], bv_['log']))), None)
        if f:
            key = f.get('id', f.get('what'))
            if key not in known_printed:
                known_printed.add(key)
                print(f"KNOWN-FINDING: property={pid} {f['what']} (package {bv_['pkg']} variant {bv_['variant']})")
            continue
        violations += 1
        p = write_replay(pid, f"build.{bv_['pkg']}.{violations}", {'property': pid, 'build_failure': bv_})
        print(f'VIOLATION property={pid} replay={p}')
        print(f"  build of {bv_['pkg']} fails under variant {bv_['variant']}: {bv_['log'][-400:]}")

    st = collections.Counter(r['status'] for r in results)
    programs = len(results)
    nontrivial = sum(1 for r in results if r['nontrivial'] and r['status'] in ('held', 'partial', 'violation'))
    samples = []
    for r in results[:: max(1, len(results) // 6)][:6]:
        samples.append({'kernel': f"{r['pkg']}/{r['kernel']}", 'family': r.get('family'), 'paths': r['paths'],
                        'status': r['status'], 'queries': r['queries']})
    unexplored = [{'kernel': f"{r['pkg']}/{r['kernel']}", 'why': r['unexplored'][:3]} for r in results if r['unexplored']]
    coverage = {
        'programs': programs,
        'disagreements_checked': sum(r['replayed'] for r in results),
        'samples': samples,
        'evaluations': sum(r['queries'] for r in results),
        'distinct_nontrivial': nontrivial,
        'rule': 'one evaluation = one solver query; a kernel is non-trivial if its explored outcome depends on an input byte '
                '(more than one path, or a symbolic byte in the result); kernels are distinct by construction (generator names)',
        'obligations': sum(r['queries'] for r in results),
        'discharged': sum(r['unsat'] for r in results),
        'solver_queries': {'total': sum(r['queries'] for r in results), 'sat': sum(r['sat'] for r in results),
                           'unsat': sum(r['unsat'] for r in results), 'unknown': sum(r['unknown'] for r in results)},
        'solver_s': round(sum(r['solver_s'] for r in results), 2),
        'vm_steps_symbolic': sum(r['steps'] for r in results),
        'status_counts': dict(st),
        'variants': {k: {'profile': v[0], 'env': v[1]} for k, v in cfg['variants'].items()},
        'pairs_compared': cfg['pairs'],
        'packages': [{'name': p.name, 'kernels': len(p.kernels)} for p in corpus],
        'build_failures': dict(build_fail),
        'unexplored': unexplored[:60],
        'unexplored_count': len(unexplored),
        'bounds': E.LIMITS_QUICK if tier == 'quick' else E.LIMITS_THOROUGH,
        'functions_encoded': 'bytecode of every kernel as emitted by the current tree (forc built from /repo with hooks on), '
                             'executed symbolically by sv/symvm.py; script data bytes are the symbolic variables',
        'exhaustive': False,
    }
    if cfg.get('passes'):
        coverage['ir_passes'] = cfg['passes']
    if aux:
        coverage['auxiliary_programs'] = aux['report']
    assumptions = [
        'SV opcode semantics (sv/symvm.py) transcribed from fuel-vm 0.66.4; validated on this run by replaying fixed inputs and every solver model on the real interpreter',
        'gas is sufficient; transaction layout (one coin input, script length) does not influence program semantics',
        'inputs are valid ABI encodings (bool bytes in {0,1}, enum tags in range); invalid encodings are the subject of C10',
        'revert codes and panic reasons are not compared across builds (C02 allows backtrace metadata to differ)',
        'programs = the generated kernel corpus for this tier/seed; the claim is for all inputs of each of these programs, not for all programs',
        'kernels that hit a path/step/solver cap are listed as unexplored and are not counted as held',
    ]
    if cfg['mode'] == 'spec':
        assumptions.append('reference semantics: sv/lang.py (Sway docs + ops.sw overflow rules), generated from the same AST as the Sway text')
    write_evidence(pid, tier, seed, LEVEL_TEXT, coverage, assumptions, time.time() - t0, violations)
    log(f'[{pid}] {programs} kernels: {dict(st)}; {coverage["solver_queries"]}; wall {time.time() - t0:.0f}s')
    if violations:
        return 1
    if engine_errors:
        print(f'ENGINE-ERROR property={pid}: {engine_errors} kernels with engine/replay mismatches (see stderr)')
        return 2
    return 0


AUX_PROGRAMS = {
    'aux_call_script': """script;
abi MyC { fn get(x: u64) -> u64; #[payable] fn pay(a: (u64, bool), b: b256) -> b256; }
fn main(x: u64) -> u64 {
    let c = abi(MyC, 0x00000000000000000000000000000000000000000000000000000000000000a1);
    let r = c.get(x);
    let h = c.pay { gas: 10000, coins: 0, asset_id: b256::zero() }((r, true), b256::zero());
    if h == b256::zero() { r } else { r + 1 }
}
""",
    'aux_contract': """contract;
use std::hash::*;
abi MyC {
    #[storage(read, write)] fn bump(x: u64) -> u64;
    #[storage(read)] fn get_b() -> b256;
    fn pure(x: u8, y: (u64, bool)) -> u64;
    #[payable] fn pay() -> u64;
}
configurable { STEP: u64 = 3, NAME: str[4] = __to_str_array("abcd") }
storage { counter: u64 = 7, b: b256 = 0x0000000000000000000000000000000000000000000000000000000000000001, m: StorageMap<u64, u64> = StorageMap {} }
impl MyC for Contract {
    #[storage(read, write)] fn bump(x: u64) -> u64 {
        let c = storage.counter.read() + x * STEP;
        storage.counter.write(c);
        storage.m.insert(x, c);
        log(c);
        storage.m.get(x).try_read().unwrap_or(0)
    }
    #[storage(read)] fn get_b() -> b256 { storage.b.read() }
    fn pure(x: u8, y: (u64, bool)) -> u64 { if y.1 { x.as_u64() + y.0 } else { 0 } }
    #[payable] fn pay() -> u64 { std::context::msg_amount() + std::context::this_balance(AssetId::base()) }
}
#[fallback]
fn fallback() -> u64 { 77 }
""",
    'aux_predicate': """predicate;
fn check(mutex: u64, retx: u64) -> bool { mutex + 1 == retx }
fn main(mutex: u64, b: b256) -> bool {
    let mut global = mutex;
    global += 1;
    check(mutex, global) && b != b256::zero() && std::tx::tx_script_length().unwrap_or(0) == 0
}
""",
}


def aux_roundtrip_builds(cfg):
    """C05, auxiliary and enumerated (not solver-decided): program kinds SV cannot execute (a script
    calling a contract, a contract with storage/configurables/fallback, a predicate) are compiled with
    and without the round trip; the re-parsed module must still be accepted by the verifier and the
    backend.  Identical bytecode is recorded; different bytecode is inconclusive, not a violation."""
    from concurrent.futures import ThreadPoolExecutor
    from .common import build_package
    jobs = [(n, vn) for n in AUX_PROGRAMS for vn in cfg['variants']]

    def one(j):
        n, vn = j
        prof, env = cfg['variants'][vn]
        return j, build_package(n, AUX_PROGRAMS[n], prof, env)

    with ThreadPoolExecutor(max_workers=8) as ex:
        built = dict(ex.map(one, jobs))
    report, violations = [], []
    for n in AUX_PROGRAMS:
        for ref, vn in cfg['pairs']:
            b0, b1 = built[(n, ref)], built[(n, vn)]
            if getattr(b0, 'timed_out', False) or getattr(b1, 'timed_out', False):
                report.append({'program': n, 'variant': vn, 'result': 'build timed out'})
            elif not b0.ok:
                report.append({'program': n, 'variant': vn, 'result': 'reference build fails'})
            elif not b1.ok:
                report.append({'program': n, 'variant': vn, 'result': 'round-tripped module rejected'})
                violations.append({'pkg': n, 'variant': vn, 'log': b1.log[-1500:]})
            else:
                report.append({'program': n, 'variant': vn,
                               'result': 'bytecode identical' if b0.bytecode == b1.bytecode else 'bytecode differs (inconclusive)'})
    return {'report': report, 'violations': violations}


def replay(pid, path):
    """re-run a recorded counterexample against builds of the *current* tree on the real fuel-vm"""
    from .common import VmRun, normalize_receipts, build_package
    obj = json.load(open(path))
    print(json.dumps(obj, indent=1, default=str)[:2500])
    v = obj.get('violation')
    if not v or 'input' not in v:
        return 0
    tier, seed = obj.get('tier', 'quick'), int(obj.get('seed', 0))
    cfg = config(pid, tier, seed)
    rules = asm_rules() if cfg.get('asm') or pid in ('C01', 'C02') else None
    corpus = C.build_corpus(tier, seed, asm_rules=rules, families=cfg['families'])
    pkg = next((p for p in corpus if p.name == obj['pkg']), None)
    if pkg is None:
        print('replay: package not in the current corpus')
        return 2
    names = v.get('variants') or [v.get('variant')]
    vm = VmRun()
    outs = {}
    for vn in names:
        prof, env = cfg['variants'][vn]
        b = build_package(pkg.name, pkg.source(), prof, env)
        if not b.ok:
            print(f'replay: build of {vn} fails: {b.log[-400:]}')
            outs[vn] = None
            continue
        outs[vn] = E.observable(normalize_receipts(vm.run(b.bytecode, bytes.fromhex(v['input']))))
        print(f'replay: {vn}: {outs[vn]}')
    if len(names) == 2:
        still = outs[names[0]] != outs[names[1]]
    else:
        exp = v.get('expected', {})
        o = outs[names[0]]
        still = o is not None and ((o[0] != exp.get('revert')) or (not o[0] and [list(l[2]) for l in o[3] if l[0] == 'logd'] != [exp.get('log_data')]))
    print('replay: violation ' + ('REPRODUCES on the current tree' if still else 'does not reproduce on the current tree'))
    return 1 if still else 0


def _guarded():
    try:
        return main()
    except SystemExit:
        raise
    except BaseException as e:  # machinery failure is never a verdict about the property
        import traceback
        traceback.print_exc()
        print(f'ENGINE-ERROR: {type(e).__name__}: {str(e)[:500]}')
        return 2


if __name__ == '__main__':
    sys.exit(_guarded())
