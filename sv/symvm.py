#!/usr/bin/env python3
"""SV — symbolic executor for FuelVM bytecode as emitted by the current tree's forc.

Data is symbolic (z3 bit-vectors), control (pc, addresses, lengths) is concrete; a branch on a
symbolic condition forks after a feasibility query; a symbolic address or length is resolved by
enumerating its feasible values (bounded).  The opcode table is parsed from the fuel-asm crate
source in the cargo registry; the semantics below are transcribed from
fuel-vm-0.66.4/src/interpreter/{alu.rs,alu/*.rs,memory.rs,flow.rs,executors/opcodes_impl.rs}
and are validated on every run by replaying solver models and fixed inputs on the real
interpreter (see replay.py).
"""
import glob
import re
import time
import z3

M64 = (1 << 64) - 1
VM_MAX_RAM = 64 * 1024 * 1024
(R_ZERO, R_ONE, R_OF, R_PC, R_SSP, R_SP, R_FP, R_HP, R_ERR, R_GGAS, R_CGAS, R_BAL, R_IS, R_RET,
 R_RETL, R_FLAG) = range(16)
FLAG_UNSAFEMATH = 1
FLAG_WRAPPING = 2


def _fuel_asm_lib():
    c = sorted(glob.glob('/root/.cargo/registry/src/*/fuel-asm-0.66*/src/lib.rs'))
    if not c:
        c = sorted(glob.glob('/root/.cargo/registry/src/*/fuel-asm-*/src/lib.rs'))
    return c[-1]


def load_optable(path=None):
    tab = {}
    for line in open(path or _fuel_asm_lib()):
        m = re.match(r'\s*0x([0-9a-fA-F]{2}) ([A-Z0-9]+) \w+ \[(.*)\]', line)
        if m:
            code = int(m.group(1), 16)
            args = re.findall(r'(\w+): (\w+)', m.group(3))
            tab[code] = (m.group(2), [k for _, k in args])
    assert len(tab) > 90, 'opcode table not found in fuel-asm source'
    return tab


OPTAB = load_optable()
IMMW = {'Imm06': 6, 'Imm12': 12, 'Imm18': 18, 'Imm24': 24}
_DECODE_CACHE = {}


def decode(word):
    r = _DECODE_CACHE.get(word)
    if r is not None:
        return r
    op = word >> 24
    if op not in OPTAB:
        r = ('INVALID', [])
    else:
        name, kinds = OPTAB[op]
        args = []
        shift = 24
        for k in kinds:
            if k == 'RegId':
                shift -= 6
                args.append((word >> shift) & 0x3f)
            else:
                w = IMMW[k]
                args.append(word & ((1 << w) - 1))
        r = (name, args)
    _DECODE_CACHE[word] = r
    return r


def isc(x):
    return isinstance(x, int)


def bv(x, w=64):
    return z3.BitVecVal(x, w) if isc(x) else x


def simp(x):
    if isc(x):
        return x
    x = z3.simplify(x)
    if z3.is_bv_value(x):
        return x.as_long()
    return x


def bool_simp(c):
    if isinstance(c, bool):
        return c
    c = z3.simplify(c)
    if z3.is_true(c):
        return True
    if z3.is_false(c):
        return False
    return c


def ite64(c, a=1, b=0):
    c = bool_simp(c)
    if c is True:
        return a
    if c is False:
        return b
    return z3.If(c, bv(a), bv(b))



def maxbits(x, depth=6):
    """cheap syntactic upper bound on the number of significant bits of a bit-vector term"""
    if isc(x):
        return x.bit_length()
    w = x.size()
    if depth == 0:
        return w
    k = x.decl().kind()
    if k == z3.Z3_OP_BNUM:
        return x.as_long().bit_length()
    if k == z3.Z3_OP_CONCAT:
        total = w
        for ch in x.children():
            if z3.is_bv_value(ch) and ch.as_long() == 0:
                total -= ch.size()
            else:
                lead = ch.size() - maxbits(ch, depth - 1)
                total -= lead
                break
        return total
    if k == z3.Z3_OP_ZERO_EXT:
        return maxbits(x.arg(0), depth - 1)
    if k == z3.Z3_OP_ITE:
        return max(maxbits(x.arg(1), depth - 1), maxbits(x.arg(2), depth - 1))
    if k == z3.Z3_OP_BAND:
        return min(maxbits(c, depth - 1) for c in x.children())
    if k in (z3.Z3_OP_BOR, z3.Z3_OP_BXOR):
        return max(maxbits(c, depth - 1) for c in x.children())
    if k == z3.Z3_OP_EXTRACT:
        return min(w, maxbits(x.arg(0), depth - 1))
    if k == z3.Z3_OP_BADD:
        return min(w, max(maxbits(c, depth - 1) for c in x.children()) + len(x.children()) - 1)
    if k == z3.Z3_OP_BMUL:
        return min(w, sum(maxbits(c, depth - 1) for c in x.children()))
    if k == z3.Z3_OP_BLSHR:
        return maxbits(x.arg(0), depth - 1)
    if k in (z3.Z3_OP_BUDIV, z3.Z3_OP_BUDIV_I, z3.Z3_OP_BUREM, z3.Z3_OP_BUREM_I):
        return maxbits(x.arg(0), depth - 1) if k in (z3.Z3_OP_BUDIV, z3.Z3_OP_BUDIV_I) else min(maxbits(x.arg(0), depth - 1), maxbits(x.arg(1), depth - 1))
    return w


class Unsupported(Exception):
    pass


class Outcome:
    """kind: return | returndata | revert | panic | unsupported | step_limit"""

    def __init__(self, kind, **kw):
        self.kind = kind
        self.value = kw.get('value')
        self.data = kw.get('data')
        self.reason = kw.get('reason')
        self.why = kw.get('why')
        self.pc = kw.get('pc')

    @property
    def reverts(self):
        return self.kind in ('revert', 'panic')

    @property
    def explored(self):
        return self.kind in ('return', 'returndata', 'revert', 'panic')

    def __repr__(self):
        d = {k: v for k, v in self.__dict__.items() if k != 'kind' and v is not None}
        return f'Outcome({self.kind}, {d})'


class Path:
    def __init__(self, cond, outcome, receipts, steps):
        self.cond = cond
        self.outcome = outcome
        self.receipts = receipts
        self.steps = steps

    def cond_term(self):
        return z3.And(*self.cond) if self.cond else z3.BoolVal(True)


class State:
    __slots__ = ('regs', 'mem', 'pc', 'cond', 'receipts', 'steps', 'pins', 'stack_len', 'prev_hp',
                 'ufs')

    def __init__(self):
        self.regs = [0] * 64
        self.mem = {}
        self.pc = 0
        self.cond = []
        self.receipts = []
        self.steps = 0
        self.pins = {}
        self.stack_len = 0
        self.prev_hp = VM_MAX_RAM
        self.ufs = False

    def clone(self):
        s = State()
        s.regs = list(self.regs)
        s.mem = dict(self.mem)
        s.pc = self.pc
        s.cond = list(self.cond)
        s.receipts = list(self.receipts)
        s.steps = self.steps
        s.pins = dict(self.pins)
        s.stack_len = self.stack_len
        s.prev_hp = self.prev_hp
        s.ufs = self.ufs
        return s


class Panic(Exception):
    def __init__(self, reason):
        self.reason = reason


# Uninterpreted helpers for operations that are expensive to bit-blast; every application is
# accompanied by defining axioms that pin the result uniquely (so they are relations, not
# abstractions), except EXP with both operands symbolic (see exp_sym).
BV64 = z3.BitVecSort(64)
UF_EXP = z3.Function('vm_exp', BV64, BV64, BV64)        # wrapped result
UF_EXP_OVF = z3.Function('vm_exp_ovf', BV64, BV64, z3.BoolSort())
UF_ROOT2 = z3.Function('vm_isqrt', BV64, BV64)


class SymVM:
    def __init__(self, max_steps=60000, max_paths=512, max_enum=16, query_timeout_ms=20000):
        self.solver = z3.Solver()
        self.solver.set('timeout', query_timeout_ms)
        self.max_steps = max_steps
        self.max_paths = max_paths
        self.max_enum = max_enum
        self.queries = 0
        self.solver_time = 0.0
        self.axioms = []          # global facts about UF applications (valid, not path-specific)
        self.script_data_ptr = None
        self.script_data_len = None
        self.script_len = None
        self.total_steps = 0
        self.opcodes_seen = set()

    # ---------------------------------------------------------------- solver
    def check(self, conds):
        self.queries += 1
        t = time.time()
        self.solver.push()
        for c in self.axioms:
            self.solver.add(c)
        for c in conds:
            self.solver.add(c)
        r = self.solver.check()
        m = self.solver.model() if r == z3.sat else None
        self.solver.pop()
        self.solver_time += time.time() - t
        return r, m

    def feasible(self, conds):
        r, _ = self.check(conds)
        if r == z3.unknown:
            raise Unsupported('solver timeout in feasibility query')
        return r == z3.sat

    # ---------------------------------------------------------------- forking
    def decide(self, st, cond, work):
        """Resolve a symbolic boolean on this path; fork if both outcomes are feasible."""
        cond = bool_simp(cond)
        if isinstance(cond, bool):
            return cond
        key = ('b', cond.get_id())
        if key in st.pins:
            return st.pins[key][0]
        t_ok = self.feasible(st.cond + [cond])
        f_ok = self.feasible(st.cond + [z3.Not(cond)]) if t_ok else True
        if t_ok and f_ok:
            other = st.clone()
            other.cond.append(z3.Not(cond))
            other.pins[key] = (False, cond)  # the AST is kept alive so that ids stay unique
            work.append(other)
            st.cond.append(cond)
            st.pins[key] = (True, cond)
            return True
        st.pins[key] = (t_ok, cond)
        return t_ok

    def choose(self, st, val, work, what='value'):
        """Resolve a symbolic 64-bit value to a concrete one, forking over its feasible values."""
        val = simp(val)
        if isc(val):
            return val
        key = ('v', val.get_id())
        if key in st.pins:
            if st.pins[key][0] is None:
                raise Unsupported(f'residual of symbolic {what} enumeration (more than {self.max_enum} feasible values)')
            return st.pins[key][0]
        vals = []
        extra = []
        while len(vals) <= self.max_enum:
            r, m = self.check(st.cond + extra)
            if r == z3.unknown:
                raise Unsupported('solver timeout while enumerating ' + what)
            if r != z3.sat:
                break
            v = m.eval(val, model_completion=True).as_long()
            vals.append(v)
            extra.append(val != v)
        if not vals:
            raise Unsupported('infeasible state while enumerating ' + what)
        if len(vals) > self.max_enum:
            # too many feasible values: explore the max_enum smallest ones exactly and leave the rest
            # as an explicitly unexplored residual path
            vals = self.smallest_values(st, val, self.max_enum, what)
            rest = st.clone()
            for v in vals:
                rest.cond.append(val != v)
            rest.pins[key] = (None, val)
            work.append(rest)
        for v in vals[1:]:
            other = st.clone()
            other.cond.append(val == v)
            other.pins[key] = (v, val)
            work.append(other)
        if len(vals) > 1:
            st.cond.append(val == vals[0])
        st.pins[key] = (vals[0], val)
        return vals[0]

    def smallest_values(self, st, val, n, what):
        """the n smallest feasible values of val under st.cond (binary search per value)"""
        out = []
        lower = 0
        while len(out) < n:
            r, m = self.check(st.cond + [z3.UGE(val, lower)])
            if r == z3.unknown:
                raise Unsupported('solver timeout while enumerating ' + what)
            if r != z3.sat:
                break
            hi = m.eval(val, model_completion=True).as_long()
            lo = lower
            # invariant: some feasible value in [lo, hi], hi feasible
            while lo < hi:
                mid = (lo + hi) // 2
                r, m = self.check(st.cond + [z3.UGE(val, lo), z3.ULE(val, mid)])
                if r == z3.unknown:
                    raise Unsupported('solver timeout while enumerating ' + what)
                if r == z3.sat:
                    hi = m.eval(val, model_completion=True).as_long()
                else:
                    lo = mid + 1
            out.append(hi)
            lower = hi + 1
            if lower > M64:
                break
        return out

    # ---------------------------------------------------------------- memory
    def check_read(self, st, addr, n):
        end = addr + n
        if end > VM_MAX_RAM:
            raise Panic('MemoryOverflow')
        if not (end <= st.stack_len or addr >= st.regs[R_HP]):
            raise Panic('UninitalizedMemoryAccess')

    def check_write(self, st, addr, n):
        self.check_read(st, addr, n)
        ssp, sp, hp = st.regs[R_SSP], st.regs[R_SP], st.regs[R_HP]
        end = addr + n
        # stack ownership
        if n == 0 and addr == ssp:
            return
        if ssp <= addr < sp and ssp <= end <= sp:
            return
        # heap ownership
        if n == 0 and addr == hp:
            return
        if addr >= hp and hp != st.prev_hp and end <= st.prev_hp:
            return
        raise Panic('MemoryOwnership')

    def load(self, st, addr, n):
        self.check_read(st, addr, n)
        mem = st.mem
        bs = [mem.get(addr + i, 0) for i in range(n)]
        if all(isc(b) for b in bs):
            v = 0
            for b in bs:
                v = (v << 8) | b
            return v
        if n == 1:
            return bs[0]
        return simp(z3.Concat(*[bv(b, 8) for b in bs]))

    def store(self, st, addr, n, val, owner_check=True):
        if owner_check:
            self.check_write(st, addr, n)
        mem = st.mem
        if isc(val):
            for i in range(n):
                mem[addr + i] = (val >> (8 * (n - 1 - i))) & 0xff
        else:
            for i in range(n):
                sh = 8 * (n - 1 - i)
                mem[addr + i] = simp(z3.Extract(sh + 7, sh, val))

    def read_bytes(self, st, addr, n):
        self.check_read(st, addr, n)
        mem = st.mem
        return [mem.get(addr + i, 0) for i in range(n)]

    def grow_stack(self, st, new_sp):
        if new_sp > VM_MAX_RAM:
            raise Panic('MemoryOverflow')
        if new_sp > st.stack_len:
            if new_sp > st.regs[R_HP]:
                raise Panic('MemoryGrowthOverlap')
            st.stack_len = new_sp

    def set_sp(self, st, new_sp):
        if new_sp < 0 or new_sp > M64:
            raise Panic('MemoryOverflow')
        if new_sp < st.regs[R_SSP]:
            raise Panic('MemoryOverflow')
        if new_sp > st.regs[R_HP]:
            raise Panic('MemoryGrowthOverlap')
        st.regs[R_SP] = new_sp
        self.grow_stack(st, new_sp)

    # ---------------------------------------------------------------- driver
    def run(self, init):
        work = [init]
        done = []
        while work:
            st = work.pop()
            if len(done) + len(work) >= self.max_paths:
                done.append(Path(st.cond, Outcome('unsupported', why='path limit', pc=st.pc),
                                 st.receipts, st.steps))
                for w in work:
                    done.append(Path(w.cond, Outcome('unsupported', why='path limit', pc=w.pc),
                                     w.receipts, w.steps))
                break
            try:
                res = self.run_path(st, work)
            except Unsupported as e:
                res = Outcome('unsupported', why=str(e), pc=st.pc)
            self.total_steps += st.steps
            done.append(Path(st.cond, res, st.receipts, st.steps))
        return done

    def wide_load(self, st, addr, nbytes):
        v = self.load(st, addr, nbytes)
        return v

    def run_path(self, st, work):
        R = st.regs
        while True:
            st.steps += 1
            if st.steps > self.max_steps:
                return Outcome('step_limit', pc=st.pc)
            try:
                out = self.step(st, work)
            except Panic as p:
                return Outcome('panic', reason=p.reason, pc=st.pc)
            if out is not None:
                return out

    def wrapping(self, st):
        return bool(st.regs[R_FLAG] & FLAG_WRAPPING)

    def unsafemath(self, st):
        return bool(st.regs[R_FLAG] & FLAG_UNSAFEMATH)

    def step(self, st, work):
        R = st.regs
        pc = st.pc
        if pc + 4 > VM_MAX_RAM:
            raise Panic('MemoryOverflow')
        mem = st.mem
        b0, b1, b2, b3 = mem.get(pc, 0), mem.get(pc + 1, 0), mem.get(pc + 2, 0), mem.get(pc + 3, 0)
        if not (isc(b0) and isc(b1) and isc(b2) and isc(b3)):
            raise Unsupported('symbolic instruction word')
        word = (b0 << 24) | (b1 << 16) | (b2 << 8) | b3
        name, a = decode(word)
        self.opcodes_seen.add(name)
        nxt = pc + 4

        def setr(i, v):
            if i < 16:
                raise Panic('ReservedRegisterNotWritable')
            R[i] = simp(v) if not isc(v) else v & M64

        def conc(v, what):
            return self.choose(st, v, work, what)

        if name in ('ADD', 'ADDI', 'SUB', 'SUBI', 'MUL', 'MULI'):
            b = R[a[1]]
            c = a[2] if name.endswith('I') else R[a[2]]
            k = name[0]
            if isc(b) and isc(c):
                r = {'A': b + c, 'S': b - c, 'M': b * c}[k]
                full = r & ((1 << 128) - 1)
                if full > M64 and not self.wrapping(st):
                    raise Panic('ArithmeticOverflow')
                setr(a[0], full & M64)
                R[R_OF] = full >> 64
            else:
                B, C = z3.ZeroExt(64, bv(b)), z3.ZeroExt(64, bv(c))
                mb, mc = maxbits(b), maxbits(c)
                if k == 'A':
                    full = B + C
                    ovf = False if max(mb, mc) < 64 else z3.ULT(bv(b) + bv(c), bv(b))
                    low = bv(b) + bv(c)
                elif k == 'S':
                    full = B - C
                    ovf = z3.ULT(bv(b), bv(c))
                    low = bv(b) - bv(c)
                else:
                    full = B * C
                    ovf = False if mb + mc <= 64 else z3.Not(z3.BVMulNoOverflow(bv(b), bv(c), False))
                    low = bv(b) * bv(c)
                if not self.wrapping(st):
                    if self.decide(st, ovf, work):
                        raise Panic('ArithmeticOverflow')
                    setr(a[0], low)
                    R[R_OF] = 0
                else:
                    setr(a[0], low)
                    R[R_OF] = simp(z3.Extract(127, 64, full))
            R[R_ERR] = 0
        elif name in ('DIV', 'DIVI', 'MOD', 'MODI'):
            b = R[a[1]]
            c = a[2] if name.endswith('I') else R[a[2]]
            zero = (c == 0) if isc(c) else self.decide(st, c == 0, work)
            isdiv = name.startswith('DIV')
            if zero:
                if not self.unsafemath(st):
                    raise Panic('ArithmeticError')
                setr(a[0], 0)
                R[R_ERR] = 1
            else:
                if isc(b) and isc(c):
                    setr(a[0], b // c if isdiv else b % c)
                else:
                    setr(a[0], z3.UDiv(bv(b), bv(c)) if isdiv else z3.URem(bv(b), bv(c)))
                R[R_ERR] = 0
            R[R_OF] = 0
        elif name in ('AND', 'ANDI', 'OR', 'ORI', 'XOR', 'XORI'):
            b = R[a[1]]
            c = a[2] if name.endswith('I') and name != 'OR' and name != 'XOR' else R[a[2]]
            if name in ('ANDI', 'ORI', 'XORI'):
                c = a[2]
            else:
                c = R[a[2]]
            base = name[:-1] if name in ('ANDI', 'ORI', 'XORI') else name
            if isc(b) and isc(c):
                setr(a[0], {'AND': b & c, 'OR': b | c, 'XOR': b ^ c}[base])
            else:
                B, C = bv(b), bv(c)
                setr(a[0], {'AND': B & C, 'OR': B | C, 'XOR': B ^ C}[base])
            R[R_OF] = 0
            R[R_ERR] = 0
        elif name == 'NOT':
            b = R[a[1]]
            setr(a[0], (~b) & M64 if isc(b) else ~b)
            R[R_OF] = 0
            R[R_ERR] = 0
        elif name in ('EQ', 'GT', 'LT'):
            b, c = R[a[1]], R[a[2]]
            if isc(b) and isc(c):
                setr(a[0], int({'EQ': b == c, 'GT': b > c, 'LT': b < c}[name]))
            else:
                B, C = bv(b), bv(c)
                cnd = {'EQ': B == C, 'GT': z3.UGT(B, C), 'LT': z3.ULT(B, C)}[name]
                setr(a[0], ite64(cnd))
            R[R_OF] = 0
            R[R_ERR] = 0
        elif name in ('SLL', 'SRL', 'SLLI', 'SRLI'):
            b = R[a[1]]
            c = a[2] if name.endswith('I') else R[a[2]]
            left = name.startswith('SLL')
            if isc(b) and isc(c):
                setr(a[0], 0 if c >= 64 else ((b << c) & M64 if left else b >> c))
            else:
                B, C = bv(b), bv(c)
                sh = (B << C) if left else z3.LShR(B, C)
                setr(a[0], sh)  # SMT-LIB shifts by >= width already give 0
            R[R_OF] = 0
            R[R_ERR] = 0
        elif name in ('EXP', 'EXPI'):
            b = R[a[1]]
            c = a[2] if name == 'EXPI' else R[a[2]]
            self.op_exp(st, work, a[0], b, c, setr)
        elif name == 'MLOG':
            b, c = R[a[1]], R[a[2]]
            self.op_mlog(st, work, a[0], b, c, setr)
        elif name == 'MROO':
            b, c = R[a[1]], R[a[2]]
            self.op_mroo(st, work, a[0], b, c, setr)
        elif name == 'MLDV':
            b, c, d = R[a[1]], R[a[2]], R[a[3]]
            B, C, D = (z3.ZeroExt(64, bv(x)) for x in (b, c, d))
            inter = B * C
            dz = bool_simp(bv(d) == 0) if not isc(d) else (d == 0)
            if not isinstance(dz, bool):
                dz = self.decide(st, dz, work)
            if dz:
                res = z3.Extract(127, 64, inter)
                ovf_t = z3.BitVecVal(0, 64)
            else:
                q = z3.UDiv(inter, D)
                res = z3.Extract(63, 0, q)
                ovf_t = z3.Extract(127, 64, q)
            ovf_t = simp(ovf_t)
            if not self.wrapping(st):
                o = (ovf_t != 0) if isc(ovf_t) else self.decide(st, ovf_t != 0, work)
                if o:
                    raise Panic('ArithmeticOverflow')
                R[R_OF] = 0
            else:
                R[R_OF] = ovf_t
            setr(a[0], res)
            R[R_ERR] = 0
        elif name == 'MOVE':
            setr(a[0], R[a[1]])
            R[R_OF] = 0
            R[R_ERR] = 0
        elif name == 'MOVI':
            setr(a[0], a[1])
            R[R_OF] = 0
            R[R_ERR] = 0
        elif name == 'NOOP':
            R[R_OF] = 0
            R[R_ERR] = 0
        elif name in ('LW', 'LB'):
            base = conc(R[a[1]], 'load address')
            if name == 'LW':
                setr(a[0], self.load(st, base + a[2] * 8, 8))
            else:
                v = self.load(st, base + a[2], 1)
                setr(a[0], v if isc(v) else z3.ZeroExt(56, v))
        elif name in ('SW', 'SB'):
            base = conc(R[a[0]], 'store address')
            v = R[a[1]]
            if name == 'SW':
                self.store(st, base + a[2] * 8, 8, v)
            else:
                self.store(st, base + a[2], 1, (v & 0xff) if isc(v) else z3.Extract(7, 0, v))
        elif name in ('MCP', 'MCPI'):
            dst = conc(R[a[0]], 'mcp dst')
            src = conc(R[a[1]], 'mcp src')
            n = a[2] if name == 'MCPI' else conc(R[a[2]], 'mcp length')
            self.check_read(st, dst, n)
            self.check_read(st, src, n)
            if n > 0 and dst < src + n and src < dst + n:
                raise Panic('MemoryWriteOverlap')
            self.check_write(st, dst, n)
            data = [mem.get(src + i, 0) for i in range(n)]
            for i, b in enumerate(data):
                mem[dst + i] = b
        elif name in ('MCL', 'MCLI'):
            dst = conc(R[a[0]], 'mcl dst')
            n = a[1] if name == 'MCLI' else conc(R[a[1]], 'mcl length')
            self.check_write(st, dst, n)
            for i in range(n):
                mem[dst + i] = 0
        elif name == 'MEQ':
            pa = conc(R[a[1]], 'meq a')
            pb = conc(R[a[2]], 'meq b')
            n = conc(R[a[3]], 'meq length')
            xs = self.read_bytes(st, pa, n)
            ys = self.read_bytes(st, pb, n)
            conds = []
            false = False
            for x, y in zip(xs, ys):
                if isc(x) and isc(y):
                    if x != y:
                        false = True
                        break
                else:
                    conds.append(bv(x, 8) == bv(y, 8))
            if false:
                setr(a[0], 0)
            elif not conds:
                setr(a[0], 1)
            else:
                setr(a[0], ite64(z3.And(*conds)))
        elif name in ('CFEI', 'CFE', 'CFSI', 'CFS'):
            n = a[0] if name.endswith('I') else conc(R[a[0]], 'cfe amount')
            if name.startswith('CFE'):
                self.set_sp(st, R[R_SP] + n)
            else:
                self.set_sp(st, R[R_SP] - n)
        elif name in ('PSHL', 'PSHH'):
            base = 16 if name == 'PSHL' else 40
            cnt = bin(a[0]).count('1')
            at = R[R_SP]
            self.set_sp(st, at + 8 * cnt)
            for i in range(24):
                if a[0] & (1 << i):
                    self.store(st, at, 8, R[base + i], owner_check=False)
                    at += 8
        elif name in ('POPL', 'POPH'):
            base = 16 if name == 'POPL' else 40
            cnt = bin(a[0]).count('1')
            new_sp = R[R_SP] - 8 * cnt
            self.set_sp(st, new_sp)
            at = new_sp
            for i in range(24):
                if a[0] & (1 << i):
                    R[base + i] = self.load(st, at, 8)
                    at += 8
        elif name == 'ALOC':
            n = conc(R[a[0]], 'aloc amount')
            new_hp = R[R_HP] - n
            if new_hp < 0:
                raise Panic('MemoryOverflow')
            if new_hp < R[R_SP]:
                raise Panic('MemoryGrowthOverlap')
            for i in range(n):
                mem[new_hp + i] = 0
            R[R_HP] = new_hp
            if st.stack_len > new_hp:
                st.stack_len = new_hp
        elif name == 'JAL':
            tgt = conc(R[a[1]], 'jal target')
            if a[0] != R_ZERO:
                setr(a[0], pc + 4)
            nxt = tgt + a[2] * 4
        elif name in ('JMPF', 'JMPB'):
            dyn = conc(R[a[0]], 'jump offset')
            off = (dyn + a[1] + 1) * 4
            nxt = pc + off if name == 'JMPF' else pc - off
        elif name in ('JNZF', 'JNZB'):
            c = R[a[0]]
            taken = (c != 0) if isc(c) else self.decide(st, c != 0, work)
            if taken:
                dyn = conc(R[a[1]], 'jump offset')
                off = (dyn + a[2] + 1) * 4
                nxt = pc + off if name == 'JNZF' else pc - off
        elif name in ('JNEF', 'JNEB'):
            l, r = R[a[0]], R[a[1]]
            taken = (l != r) if (isc(l) and isc(r)) else self.decide(st, bv(l) != bv(r), work)
            if taken:
                dyn = conc(R[a[2]], 'jump offset')
                off = (dyn + a[3] + 1) * 4
                nxt = pc + off if name == 'JNEF' else pc - off
        elif name == 'JI':
            nxt = R[R_IS] + a[0] * 4
        elif name == 'JNZI':
            c = R[a[0]]
            taken = (c != 0) if isc(c) else self.decide(st, c != 0, work)
            if taken:
                nxt = R[R_IS] + a[1] * 4
        elif name == 'JNEI':
            l, r = R[a[0]], R[a[1]]
            taken = (l != r) if (isc(l) and isc(r)) else self.decide(st, bv(l) != bv(r), work)
            if taken:
                nxt = R[R_IS] + a[2] * 4
        elif name == 'JMP':
            nxt = R[R_IS] + conc(R[a[0]], 'jmp target') * 4
        elif name == 'JNE':
            l, r = R[a[0]], R[a[1]]
            taken = (l != r) if (isc(l) and isc(r)) else self.decide(st, bv(l) != bv(r), work)
            if taken:
                nxt = R[R_IS] + conc(R[a[2]], 'jne target') * 4
        elif name == 'GTF':
            idx = conc(R[a[1]], 'gtf index')
            if a[2] == 0x00A and self.script_data_ptr is not None:
                setr(a[0], self.script_data_ptr)
            elif a[2] == 0x004 and self.script_data_len is not None:
                setr(a[0], self.script_data_len)
            elif a[2] == 0x003 and self.script_len is not None:
                setr(a[0], self.script_len)
            elif a[2] == 0x001:
                setr(a[0], 0)  # transaction type: script
            else:
                raise Unsupported(f'gtf {a[2]:#x}')
        elif name == 'FLAG':
            v = conc(R[a[0]], 'flag value')
            if v & ~3:
                raise Panic('InvalidFlags')
            R[R_FLAG] = v
        elif name == 'RET':
            return Outcome('return', value=R[a[0]])
        elif name == 'RETD':
            p = conc(R[a[0]], 'retd pointer')
            n = conc(R[a[1]], 'retd length')
            return Outcome('returndata', data=self.read_bytes(st, p, n))
        elif name == 'RVRT':
            return Outcome('revert', value=R[a[0]])
        elif name == 'LOG':
            st.receipts.append(('log', R[a[0]], R[a[1]], R[a[2]], R[a[3]]))
        elif name == 'LOGD':
            p = conc(R[a[2]], 'logd pointer')
            n = conc(R[a[3]], 'logd length')
            st.receipts.append(('logd', R[a[0]], R[a[1]], self.read_bytes(st, p, n)))
        elif name == 'SMO':
            # fuel-vm 0.66.4 interpreter/blockchain.rs message_output, external (script) context
            n = conc(R[a[2]], 'smo data length')
            if n > 1024 * 1024:
                raise Panic('MessageDataTooLong')
            p = conc(R[a[1]], 'smo data pointer')
            data = self.read_bytes(st, p, n)
            rp = conc(R[a[0]], 'smo recipient pointer')
            recipient = self.read_bytes(st, rp, 32)
            self.read_bytes(st, conc(R[R_FP], 'fp'), 32)  # sender
            # free balance of the base asset: the VM mirrors RuntimeBalances in memory at
            # [64 + 40*i): asset id (32 bytes), balance (8 bytes); base asset id at [32, 64)
            base = [st.mem.get(32 + i, 0) for i in range(32)]
            ent = None
            for i in range(255):
                if [st.mem.get(64 + 40 * i + j, 0) for j in range(32)] == base:
                    ent = 64 + 40 * i + 32
                    break
            if ent is None:
                raise Panic('NotEnoughBalance')
            bal = self.load(st, ent, 8)
            amount = R[a[3]]
            if isc(amount) and isc(bal):
                enough = amount <= bal
            else:
                enough = self.decide(st, z3.ULE(bv(amount), bv(bal)), work)
            if not enough:
                raise Panic('NotEnoughBalance')
            self.store(st, ent, 8, simp(bv(bal) - bv(amount)) if not (isc(bal) and isc(amount)) else bal - amount,
                       owner_check=False)
            st.receipts.append(('smo', 0, amount, list(recipient) + list(data)))
        elif name in ('WQOP', 'WDOP'):
            self.op_wide_math(st, work, name, a)
        elif name in ('WQCM', 'WDCM'):
            self.op_wide_cmp(st, work, name, a, setr)
        elif name in ('WQML', 'WDML'):
            self.op_wide_mul(st, work, name, a)
        elif name in ('WQDV', 'WDDV'):
            self.op_wide_div(st, work, name, a)
        elif name in ('WQMD', 'WDMD', 'WQAM', 'WDAM', 'WQMM', 'WDMM'):
            self.op_wide_ternary(st, work, name, a)
        else:
            raise Unsupported(f'opcode {name}')
        st.pc = nxt
        R[R_PC] = nxt
        if nxt >= VM_MAX_RAM or nxt < 0:
            raise Panic('MemoryOverflow')
        return None

    # ---------------------------------------------------------------- arithmetic helpers
    def op_exp(self, st, work, ra, b, c, setr):
        R = st.regs
        if isc(b) and isc(c):
            if c > 0xffffffff:
                r, ovf = (b, False) if b < 2 else (0, True)
            else:
                full = pow(b, c) if (c < 64 or b < 2) else (1 << 64)
                ovf = full > M64
                r = full & M64 if not ovf else 0
            if ovf and not self.wrapping(st):
                raise Panic('ArithmeticOverflow')
            setr(ra, 0 if ovf else r)
            R[R_OF] = int(ovf)
            R[R_ERR] = 0
            return
        if isc(c) and c <= 64:
            # repeated 64-bit multiplication with sticky overflow
            B = bv(b)
            acc = z3.BitVecVal(1, 64)
            ovf = z3.BoolVal(False)
            for i in range(c):
                if i > 0:
                    ovf = z3.Or(ovf, z3.Not(z3.BVMulNoOverflow(acc, B, False)))
                acc = acc * B
            res = acc
        elif isc(b) and b in (0, 1):
            C = bv(c)
            res = z3.If(C == 0, z3.BitVecVal(1, 64), z3.BitVecVal(b, 64))
            ovf = z3.BoolVal(False)
        elif isc(b) and b == 2:
            C = bv(c)
            res = z3.BitVecVal(1, 64) << C
            ovf = z3.UGE(C, 64)
        else:
            B, C = bv(b), bv(c)
            res = UF_EXP(B, C)
            ovf = UF_EXP_OVF(B, C)
            st.ufs = True
            self.axioms += [
                z3.Implies(C == 0, z3.And(res == 1, z3.Not(ovf))),
                z3.Implies(C == 1, z3.And(res == B, z3.Not(ovf))),
                z3.Implies(z3.And(B == 0, C != 0), z3.And(res == 0, z3.Not(ovf))),
                z3.Implies(B == 1, z3.And(res == 1, z3.Not(ovf))),
                z3.Implies(z3.And(z3.UGE(B, 2), z3.UGE(C, 64)), ovf),
                z3.Implies(C == 2, z3.And(ovf == (z3.Extract(127, 64, z3.ZeroExt(64, B) * z3.ZeroExt(64, B)) != 0),
                                          z3.Implies(z3.Not(ovf), res == B * B))),
            ]
        if not self.wrapping(st):
            if self.decide(st, ovf, work):
                raise Panic('ArithmeticOverflow')
            setr(ra, res)
            R[R_OF] = 0
        else:
            setr(ra, z3.If(ovf, z3.BitVecVal(0, 64), res))
            R[R_OF] = ite64(ovf)
        R[R_ERR] = 0

    def op_mlog(self, st, work, ra, b, c, setr):
        R = st.regs
        # error when b == 0 or c <= 1
        if isc(c):
            cerr = c <= 1
        else:
            cerr = self.decide(st, z3.ULE(c, 1), work)
        berr = (b == 0) if isc(b) else (False if cerr else self.decide(st, b == 0, work))
        if cerr or berr:
            if not self.unsafemath(st):
                raise Panic('ArithmeticError')
            setr(ra, 0)
            R[R_ERR] = 1
            R[R_OF] = 0
            return
        if isc(b) and isc(c):
            r = 0
            x = b
            while x >= c:
                x //= c
                r += 1
            setr(ra, r)
        elif isc(c):
            # floor(log_c(b)) = number of k >= 1 with c^k <= b
            B = bv(b)
            res = z3.BitVecVal(0, 64)
            p = c
            k = 1
            while p <= M64:
                res = z3.If(z3.UGE(B, p), z3.BitVecVal(k, 64), res)
                p *= c
                k += 1
            setr(ra, res)
        else:
            raise Unsupported('mlog with symbolic base')
        R[R_ERR] = 0
        R[R_OF] = 0

    def op_mroo(self, st, work, ra, b, c, setr):
        R = st.regs
        czero = (c == 0) if isc(c) else self.decide(st, c == 0, work)
        if czero:
            if not self.unsafemath(st):
                raise Panic('ArithmeticError')
            setr(ra, 0)
            R[R_ERR] = 1
            R[R_OF] = 0
            return
        if isc(b) and isc(c):
            lo, hi = 0, b
            # integer c-th root
            r = int(round(b ** (1.0 / c))) if b < (1 << 52) else None
            lo, hi = 0, 1 << 64
            while hi - lo > 1:
                mid = (lo + hi) // 2
                if mid ** c <= b:
                    lo = mid
                else:
                    hi = mid
            setr(ra, lo)
        elif isc(c) and c == 2:
            B = bv(b)
            r = UF_ROOT2(B)
            r128 = z3.ZeroExt(64, r)
            self.axioms += [
                z3.ULE(r128 * r128, z3.ZeroExt(64, B)),
                z3.ULT(z3.ZeroExt(64, B), (r128 + 1) * (r128 + 1)),
                z3.ULT(r, z3.BitVecVal(1 << 32, 64)),
            ]
            setr(ra, r)
        elif isc(c) and c == 1:
            setr(ra, b)
        else:
            raise Unsupported('mroo with symbolic or >2 index')
        R[R_ERR] = 0
        R[R_OF] = 0

    def _wide_operand(self, st, work, reg, indirect, nbytes):
        R = st.regs
        bits = nbytes * 8
        if indirect:
            addr = self.choose(st, R[reg], work, 'wide operand address')
            v = self.load(st, addr, nbytes)
            return v
        v = R[reg]
        return v if isc(v) else z3.ZeroExt(bits - 64, v)

    def op_wide_math(self, st, work, name, a):
        R = st.regs
        nbytes = 32 if name[1] == 'Q' else 16
        bits = nbytes * 8
        mask = (1 << bits) - 1
        imm = a[3]
        op = imm & 0b11111
        if op > 7:
            raise Panic('InvalidImmediateValue')
        indirect = bool((imm >> 5) & 1)
        dst = self.choose(st, R[a[0]], work, 'wide dst')
        lhs = self._wide_operand(st, work, a[1], True, nbytes)
        rhs = self._wide_operand(st, work, a[2], indirect, nbytes)
        ovf = False
        if isc(lhs) and isc(rhs):
            if op == 0:
                r = lhs + rhs
                ovf = r > mask
            elif op == 1:
                r = lhs - rhs
                ovf = r < 0
            elif op == 2:
                r = ~lhs
            elif op == 3:
                r = lhs | rhs
            elif op == 4:
                r = lhs ^ rhs
            elif op == 5:
                r = lhs & rhs
            elif op == 6:
                r = (lhs << rhs) if rhs < bits else 0
            else:
                r = (lhs >> rhs) if rhs < bits else 0
            r &= mask
        else:
            L, Rr = bv(lhs, bits), bv(rhs, bits)
            if op == 0:
                r = L + Rr
                ovf = z3.ULT(r, L)
            elif op == 1:
                r = L - Rr
                ovf = z3.ULT(L, Rr)
            elif op == 2:
                r = ~L
            elif op == 3:
                r = L | Rr
            elif op == 4:
                r = L ^ Rr
            elif op == 5:
                r = L & Rr
            elif op == 6:
                r = L << Rr
            else:
                r = z3.LShR(L, Rr)
            r = simp(r)
            if not isinstance(ovf, bool):
                ovf = bool_simp(ovf)
        if not isinstance(ovf, bool):
            if not self.wrapping(st):
                ovf = self.decide(st, ovf, work)
        if ovf is True and not self.wrapping(st):
            raise Panic('ArithmeticOverflow')
        R[R_OF] = ite64(ovf) if not isinstance(ovf, bool) else int(ovf)
        R[R_ERR] = 0
        self.store(st, dst, nbytes, r)

    def op_wide_cmp(self, st, work, name, a, setr):
        R = st.regs
        nbytes = 32 if name[1] == 'Q' else 16
        bits = nbytes * 8
        imm = a[3]
        mode = imm & 0b111
        if (imm >> 3) & 0b11 or mode > 6:
            raise Panic('InvalidImmediateValue')
        indirect = bool((imm >> 5) & 1)
        lhs = self._wide_operand(st, work, a[1], True, nbytes)
        rhs = self._wide_operand(st, work, a[2], indirect, nbytes)
        if isc(lhs) and isc(rhs):
            if mode == 6:
                r = bits - lhs.bit_length()
            else:
                r = int([lhs == rhs, lhs != rhs, lhs < rhs, lhs > rhs, lhs <= rhs, lhs >= rhs][mode])
            setr(a[0], r)
        else:
            L, Rr = bv(lhs, bits), bv(rhs, bits)
            if mode == 6:
                res = z3.BitVecVal(bits, 64)
                for i in range(bits):
                    # highest set bit i -> lzc = bits-1-i ; build from low to high so high wins
                    res = z3.If(z3.Extract(i, i, L) == 1, z3.BitVecVal(bits - 1 - i, 64), res)
                setr(a[0], res)
            else:
                c = [L == Rr, L != Rr, z3.ULT(L, Rr), z3.UGT(L, Rr), z3.ULE(L, Rr), z3.UGE(L, Rr)][mode]
                setr(a[0], ite64(c))
        R[R_OF] = 0
        R[R_ERR] = 0

    def op_wide_mul(self, st, work, name, a):
        R = st.regs
        nbytes = 32 if name[1] == 'Q' else 16
        bits = nbytes * 8
        mask = (1 << bits) - 1
        imm = a[3]
        if imm & 0b1111:
            raise Panic('InvalidImmediateValue')
        il, ir = bool((imm >> 4) & 1), bool((imm >> 5) & 1)
        dst = self.choose(st, R[a[0]], work, 'wide dst')
        lhs = self._wide_operand(st, work, a[1], il, nbytes)
        rhs = self._wide_operand(st, work, a[2], ir, nbytes)
        if isc(lhs) and isc(rhs):
            full = lhs * rhs
            ovf = full > mask
            r = full & mask
        else:
            L, Rr = z3.ZeroExt(bits, bv(lhs, bits)), z3.ZeroExt(bits, bv(rhs, bits))
            full = L * Rr
            ovf = bool_simp(z3.Extract(2 * bits - 1, bits, full) != 0)
            r = simp(z3.Extract(bits - 1, 0, full))
        if not isinstance(ovf, bool) and not self.wrapping(st):
            ovf = self.decide(st, ovf, work)
        if ovf is True and not self.wrapping(st):
            raise Panic('ArithmeticOverflow')
        R[R_OF] = ite64(ovf) if not isinstance(ovf, bool) else int(ovf)
        R[R_ERR] = 0
        self.store(st, dst, nbytes, r)

    def op_wide_div(self, st, work, name, a):
        R = st.regs
        nbytes = 32 if name[1] == 'Q' else 16
        bits = nbytes * 8
        imm = a[3]
        if imm & 0b11111:
            raise Panic('InvalidImmediateValue')
        ir = bool((imm >> 5) & 1)
        dst = self.choose(st, R[a[0]], work, 'wide dst')
        lhs = self._wide_operand(st, work, a[1], True, nbytes)
        rhs = self._wide_operand(st, work, a[2], ir, nbytes)
        zero = (rhs == 0) if isc(rhs) else self.decide(st, rhs == 0, work)
        if zero:
            if not self.unsafemath(st):
                raise Panic('ArithmeticError')
            R[R_ERR] = 1
            r = 0
        else:
            R[R_ERR] = 0
            r = lhs // rhs if (isc(lhs) and isc(rhs)) else simp(z3.UDiv(bv(lhs, bits), bv(rhs, bits)))
        R[R_OF] = 0
        self.store(st, dst, nbytes, r)

    def op_wide_ternary(self, st, work, name, a):
        R = st.regs
        nbytes = 32 if name[1] == 'Q' else 16
        bits = nbytes * 8
        mask = (1 << bits) - 1
        kind = name[2:]
        dst = self.choose(st, R[a[0]], work, 'wide dst')
        x = self._wide_operand(st, work, a[1], True, nbytes)
        y = self._wide_operand(st, work, a[2], True, nbytes)
        z = self._wide_operand(st, work, a[3], True, nbytes)
        X, Y, Z = (z3.ZeroExt(bits, bv(v, bits)) for v in (x, y, z))
        zzero = (z == 0) if isc(z) else self.decide(st, z == 0, work)
        if kind == 'MD':  # muldiv
            prod = X * Y
            if zzero:
                q = z3.LShR(prod, bits)
            else:
                q = z3.UDiv(prod, Z)
            hi = simp(z3.Extract(2 * bits - 1, bits, q))
            r = simp(z3.Extract(bits - 1, 0, q))
            ovf = (hi != 0) if isc(hi) else bool_simp(hi != 0)
            if not isinstance(ovf, bool) and not self.wrapping(st):
                ovf = self.decide(st, ovf, work)
            if ovf is True and not self.wrapping(st):
                raise Panic('ArithmeticOverflow')
            R[R_OF] = ite64(ovf) if not isinstance(ovf, bool) else int(ovf)
            R[R_ERR] = 0
        else:
            if zzero:
                if not self.unsafemath(st):
                    raise Panic('ArithmeticError')
                R[R_ERR] = 1
                r = 0
            else:
                pre = (X + Y) if kind == 'AM' else (X * Y)
                r = simp(z3.Extract(bits - 1, 0, z3.URem(pre, Z)))
                R[R_ERR] = 0
            R[R_OF] = 0
        self.store(st, dst, nbytes, r)


# --------------------------------------------------------------------------- outcome helpers

def data_term(data):
    """list of byte values (int | BitVec8) -> list of 8-bit z3 terms"""
    return [bv(b, 8) for b in data]


def receipts_differ(ra, rb):
    """z3 Bool (or python bool) that is true iff two receipt lists differ in what is observable:
    for LOG: the four register values; for LOGD: the log id (rb) and the data bytes; for a message
    output ('smo', 0, amount, recipient + data): the amount, the recipient and the data."""
    if len(ra) != len(rb):
        return True
    diffs = []
    for x, y in zip(ra, rb):
        if x[0] != y[0]:
            return True
        if x[0] == 'log':
            for u, v in zip(x[1:], y[1:]):
                if isc(u) and isc(v):
                    if u != v:
                        return True
                else:
                    diffs.append(bv(u) != bv(v))
        else:
            u, v = x[2], y[2]
            if isc(u) and isc(v):
                if u != v:
                    return True
            else:
                diffs.append(bv(u) != bv(v))
            if len(x[3]) != len(y[3]):
                return True
            for p, q in zip(x[3], y[3]):
                if isc(p) and isc(q):
                    if p != q:
                        return True
                else:
                    diffs.append(bv(p, 8) != bv(q, 8))
    if not diffs:
        return False
    return bool_simp(z3.Or(*diffs))


def outcomes_differ(pa, pb, compare_revert_codes=False):
    """Observable difference between two explored paths (return data, logs, revert status)."""
    oa, ob = pa.outcome, pb.outcome
    if oa.reverts != ob.reverts:
        return True
    diffs = []
    if oa.reverts:
        if compare_revert_codes and oa.kind == 'revert' and ob.kind == 'revert':
            if isc(oa.value) and isc(ob.value):
                if oa.value != ob.value:
                    return True
            else:
                diffs.append(bv(oa.value) != bv(ob.value))
        # logs before a revert are rolled back with the transaction's effects but the receipts
        # are still observable; compare them as well
    else:
        if oa.kind != ob.kind:
            return True
        if oa.kind == 'return':
            if isc(oa.value) and isc(ob.value):
                if oa.value != ob.value:
                    return True
            else:
                diffs.append(bv(oa.value) != bv(ob.value))
        else:
            if len(oa.data) != len(ob.data):
                return True
            for p, q in zip(oa.data, ob.data):
                if isc(p) and isc(q):
                    if p != q:
                        return True
                else:
                    diffs.append(bv(p, 8) != bv(q, 8))
    rd = receipts_differ(pa.receipts, pb.receipts)
    if rd is True:
        return True
    if rd is not False:
        diffs.append(rd)
    if not diffs:
        return False
    return bool_simp(z3.Or(*diffs))
