"""Exploration of one compiled script: initial state from the real VM, script data made symbolic,
all paths; plus validation of SV's own semantics against the real interpreter."""
import hashlib
import time
import z3
from . import symvm
from .symvm import SymVM, State, isc, bv
from .common import normalize_receipts


def marker(n):
    out = b''
    i = 0
    while len(out) < n:
        out += hashlib.sha256(b'verif-marker%d' % i).digest()
        i += 1
    return out[:n]


class Program:
    """A compiled script with a script-data layout: `data` is a list whose items are ints
    (concrete bytes) or z3 8-bit terms."""

    def __init__(self, bytecode, data, label=''):
        self.bytecode = bytecode
        self.data = list(data)
        self.label = label
        self.patches = {}  # byte offset in bytecode -> z3 8-bit term (C13)


def initial_state(vm, prog):
    n = len(prog.data)
    mk = marker(max(n, 8)) if n else b''
    regs, mem = vm.init(prog.bytecode, mk[:n] if n else b'')
    st = State()
    for i, b in enumerate(mem):
        if b:
            st.mem[i] = b
    for i, r in enumerate(regs):
        st.regs[i] = r
    st.pc = regs[symvm.R_PC]
    st.stack_len = len(mem)
    is_ = regs[symvm.R_IS]
    assert mem[is_:is_ + len(prog.bytecode)] == prog.bytecode, 'bytecode not found at $is'
    data_ptr = None
    if n:
        if n >= 8:
            at = mem.find(mk[:n])
            assert at >= 0 and mem.find(mk[:n], at + 1) < 0, 'script data marker not unique'
            data_ptr = at
        else:
            data_ptr = is_ + (len(prog.bytecode) + 7) // 8 * 8
            assert mem[data_ptr:data_ptr + n] == mk[:n], 'script data not where expected'
        for i, b in enumerate(prog.data):
            if isc(b):
                if b:
                    st.mem[data_ptr + i] = b
                else:
                    st.mem.pop(data_ptr + i, None)
            else:
                st.mem[data_ptr + i] = b
    else:
        data_ptr = is_ + (len(prog.bytecode) + 7) // 8 * 8
    for off, term in prog.patches.items():
        st.mem[is_ + off] = term
    return st, data_ptr


def explore(vm, prog, limits=None):
    """-> (paths, stats). vm: common.VmRun."""
    limits = limits or {}
    sv = SymVM(**limits)
    st, data_ptr = initial_state(vm, prog)
    sv.script_data_ptr = data_ptr
    sv.script_data_len = len(prog.data)
    sv.script_len = len(prog.bytecode)
    t = time.time()
    paths = sv.run(st)
    stats = {
        'paths': len(paths),
        'queries': sv.queries,
        'solver_s': round(sv.solver_time, 3),
        'wall_s': round(time.time() - t, 3),
        'steps': sv.total_steps,
        'unexplored': [repr(p.outcome) for p in paths if not p.outcome.explored],
        'opcodes': sorted(sv.opcodes_seen),
    }
    return paths, stats, sv


def model_bytes(model, terms):
    out = []
    for t in terms:
        if isc(t):
            out.append(t)
        else:
            v = model.eval(t, model_completion=True)
            out.append(v.as_long())
    return bytes(out)


def eval_term(model, t):
    if isc(t):
        return t
    return model.eval(t, model_completion=True).as_long()


def concrete_outcome_of_paths(paths, assignment, axioms=()):
    """Evaluate the symbolic result under a concrete assignment {z3 const -> int}: find the path
    whose condition holds and evaluate its outcome. Returns (outcome dict, logs) or None."""
    s = z3.Solver()
    for k, v in assignment:
        s.add(k == v)
    for a in axioms:
        s.add(a)
    for p in paths:
        s.push()
        for c in p.cond:
            s.add(c)
        r = s.check()
        if r == z3.sat:
            m = s.model()
            o = p.outcome
            if o.kind == 'return':
                out = {'kind': 'return', 'value': eval_term(m, o.value)}
            elif o.kind == 'returndata':
                out = {'kind': 'returndata', 'data': [eval_term(m, b) for b in o.data]}
            elif o.kind == 'revert':
                out = {'kind': 'revert', 'value': eval_term(m, o.value)}
            elif o.kind == 'panic':
                out = {'kind': 'panic', 'reason': o.reason}
            else:
                s.pop()
                return ({'kind': o.kind, 'why': o.why}, None)
            logs = []
            for rc in p.receipts:
                if rc[0] == 'log':
                    logs.append(('log',) + tuple(eval_term(m, x) for x in rc[1:]))
                else:
                    logs.append((rc[0], eval_term(m, rc[1]), eval_term(m, rc[2]),
                                 [eval_term(m, b) for b in rc[3]]))
            s.pop()
            return out, logs
        s.pop()
    return None


def same_concrete(sym, real):
    """Compare SV's concrete evaluation with the real VM (everything SV models is compared,
    including revert codes and panic reasons)."""
    (so, sl), (ro, rl) = sym, real
    if so['kind'] != ro['kind']:
        return False
    if so['kind'] == 'panic':
        if so['reason'] != ro['reason']:
            return False
    elif so['kind'] in ('return', 'revert'):
        if so['value'] != ro['value']:
            return False
    elif so['kind'] == 'returndata':
        if so['data'] != ro['data']:
            return False
    if len(sl) != len(rl):
        return False
    for a, b in zip(sl, rl):
        if a[0] != b[0]:
            return False
        if list(a[1:]) != list(b[1:]):
            return False
    return True


def validate_against_vm(vm, prog, paths, sv, inputs):
    """Run the real VM on each concrete input (bytes for the symbolic positions are taken from
    `inputs`, a list of full data byte strings) and compare with SV's prediction.
    Returns list of mismatches."""
    mism = []
    syms = [(t, i) for i, t in enumerate(prog.data) if not isc(t)]
    for data in inputs:
        assignment = [(t, data[i]) for t, i in syms]
        pred = concrete_outcome_of_paths(paths, assignment, sv.axioms)
        if pred is None:
            mism.append({'input': data.hex(), 'why': 'no path condition satisfied (coverage hole)'})
            continue
        if pred[1] is None:
            continue  # lands on an unexplored path: nothing to validate
        real = normalize_receipts(vm.run(prog.bytecode, data))
        if not same_concrete(pred, real):
            mism.append({'input': data.hex(), 'sv': pred, 'vm': real})
    return mism
