"""C11 (callee side): contract dispatch under an emulated call frame.

The contract's bytecode is executed symbolically from its entry with `$fp` pointing at a call frame
laid out as the VM does ([to 32][asset 32][regs 512][code size 8][param1 8][param2 8], code at
$fp+600); param1 points at [u64 len][method-name bytes], param2 at the encoded arguments. Name
bytes and argument bytes are symbolic. The emulation is validated on every run by calling the same
contract through a real `call` instruction on the real fuel-vm (hand-assembled caller script) on
the solver's models and on fixed inputs, and comparing the contract's receipts."""
import random
import re
import z3

from .lang import *
from .symvm import State, VM_MAX_RAM, R_ONE, R_PC, R_SSP, R_SP, R_FP, R_HP, R_GGAS, R_CGAS, R_IS, isc
from .typed import Case
from ks.vmcheck import enc


def pad8(n):
    return (n + 7) // 8 * 8


FP = 0x4000
P1 = 0x1000
P2 = 0x2000


class Method:
    def __init__(self, name, params, ret, body):
        self.name, self.params, self.ret, self.body = name, params, ret, body   # body: lang expression over param names


def contract_source(methods, fallback):
    abi = 'abi VerifAbi {\n' + ''.join(f'    fn {m.name}(' + ', '.join(f'{n}: {t.sway()}' for n, t in m.params) + f') -> {m.ret.sway()};\n' for m in methods) + '}\n\n'
    imp = 'impl VerifAbi for Contract {\n'
    for m in methods:
        imp += f'    fn {m.name}(' + ', '.join(f'{n}: {t.sway()}' for n, t in m.params) + f') -> {m.ret.sway()} {{\n        {expr_sway(m.body, 2)}\n    }}\n'
    imp += '}\n'
    fb = ''
    if fallback is not None:
        fb = f'\n#[fallback]\nfn fallback() -> u64 {{\n    {fallback}\n}}\n'
    return 'contract;\n\n' + abi + imp + fb


def abi_sets(tier, seed):
    X, Y, K, B = Var('x'), Var('y'), Var('k'), Var('b')
    sets = []
    sets.append(([Method('ab', [('x', U64)], U64, Bin('+', X, Lit(U64, 1))),
                  Method('ac', [('x', U64)], U64, Bin('+', X, Lit(U64, 2))),
                  Method('abc', [('x', U64), ('k', U8)], U64, Bin('+', X, Cast(K, U64)))], None))
    sets.append(([Method('get', [], U64, Lit(U64, 41)),
                  Method('gets', [('b', BOOL)], U64, IfE(B, Lit(U64, 1), Lit(U64, 2))),
                  Method('set', [('x', U64), ('y', U64)], U64, Bin('-', X, Y)),
                  Method('sex', [('k', U8)], U8, Bin('*', K, Lit(U8, 2))),
                  Method('a', [('x', U64)], BOOL, Bin('<', X, Lit(U64, 10))),
                  Method('transfer_from', [('x', U64), ('y', U64), ('k', U8)], Tuple([U64, U8]), MkTuple([Bin('^', X, Y), K]))], '777'))
    sets.append(([Method('m', [('x', U64)], U64, Bin('|', X, Lit(U64, 1 << 40)))], '5'))
    if tier == 'thorough':
        rng = random.Random(seed * 37 + 1)
        for _ in range(6):
            names = set()
            while len(names) < rng.randint(2, 6):
                base = rng.choice(['a', 'ab', 'abc', 'get', 'set', 'mint', 'min', 'burn'])
                names.add(base + rng.choice(['', '', 'x', '_y', '2']))
            ms = []
            for i, nm in enumerate(sorted(names)):
                ms.append(Method(nm, [('x', U64), ('k', U8)], U64, Bin('+', Bin('^', X, Lit(U64, 1000 + i)), Cast(K, U64))))
            sets.append((ms, rng.choice([None, '99'])))
    return sets


def caller_script(total_len, name_pad):
    """hand-assembled script: copies the script data to the stack, patches param1/param2 pointers into the
    call struct and calls the contract with all gas"""
    ZERO, ONE, SP, CGAS = 0, 1, 5, 10
    p = b''
    p += enc('GTF', 16, ZERO, 0x00A)
    p += enc('MOVE', 17, SP)
    p += enc('MOVI', 20, total_len)
    p += enc('CFE', 20)
    p += enc('MCP', 17, 16, 20)
    p += enc('ADDI', 18, 17, 80)
    p += enc('SW', 17, 18, 4)
    p += enc('ADDI', 18, 17, 88 + name_pad)
    p += enc('SW', 17, 18, 5)
    p += enc('ADDI', 19, 17, 48)
    p += enc('CALL', 17, ZERO, 19, CGAS)
    p += enc('RET', ONE)
    return p


def real_call(vm, contract_code, name, args):
    cid = bytes.fromhex(vm._req({'op': 'contract_id', 'bytecode': contract_code.hex(), 'data': ''})['id'])
    npad = pad8(len(name))
    data = cid + bytes(16) + bytes(32) + len(name).to_bytes(8, 'big') + name + bytes(npad - len(name)) + args
    data += bytes(pad8(len(data)) - len(data))
    script = caller_script(len(data), npad)
    r = vm._req({'op': 'run', 'bytecode': script.hex(), 'data': data.hex(), 'contract': contract_code.hex()})
    out = None
    for rc in r['receipts']:
        if rc.get('id') == cid.hex() and rc['kind'] in ('return', 'return_data', 'revert', 'panic') and out is None:
            if rc['kind'] == 'return':
                out = {'kind': 'return', 'value': rc['val']}
            elif rc['kind'] == 'return_data':
                out = {'kind': 'returndata', 'data': list(bytes.fromhex(rc['data']))}
            elif rc['kind'] == 'revert':
                out = {'kind': 'revert', 'value': rc['val']}
            else:
                out = {'kind': 'panic', 'reason': rc['reason']}
    if out is None:
        out = {'kind': 'none', 'receipts': r['receipts'][:4], 'state': r.get('state')}
    return out


def frame_state(code, name_len, name_terms, arg_terms):
    st = State()
    IS = FP + 600
    for i, b in enumerate(code):
        if b:
            st.mem[IS + i] = b
    # frame words 73 (param1) and 74 (param2), code size word 72
    for off, val in ((72, pad8(len(code))), (73, P1), (74, P2)):
        for i in range(8):
            b = (val >> (8 * (7 - i))) & 0xff
            if b:
                st.mem[FP + off * 8 + i] = b
    for i in range(8):
        b = (name_len >> (8 * (7 - i))) & 0xff
        if b:
            st.mem[P1 + i] = b
    for i, t in enumerate(name_terms):
        st.mem[P1 + 8 + i] = t
    for i, t in enumerate(arg_terms):
        st.mem[P2 + i] = t
    end = IS + pad8(len(code))
    regs = {R_ONE: 1, R_PC: IS, R_SSP: end, R_SP: end, R_FP: FP, R_HP: VM_MAX_RAM, R_GGAS: 10 ** 9, R_CGAS: 10 ** 9, R_IS: IS}
    for k, v in regs.items():
        st.regs[k] = v
    st.pc = IS
    st.stack_len = end
    st.prev_hp = VM_MAX_RAM
    return st


def contract_cases(tier, seed):
    cases = []
    for si, (methods, fallback) in enumerate(abi_sets(tier, seed)):
        src = contract_source(methods, fallback)
        lengths = sorted({len(m.name) for m in methods})
        # name lengths to explore: every length occurring in the ABI, the shortest absent one, and for every
        # method length the next longer absent length (a called name may have a method name as a strict prefix)
        absent = {next(l for l in range(1, 20) if l not in lengths)}
        for l in lengths:
            absent.add(next(x for x in range(l + 1, l + 20) if x not in lengths))
        for L in lengths + sorted(absent):
            c = Case(f'abi{si}_len{L}', src, note=f'contract with methods {[m.name for m in methods]}, fallback={fallback}; call with any {L}-byte method name and any argument bytes',
                     tags=['contract'])
            c.pkg_name = (lambda si=si: f'cabi{si}')
            c.contract = True
            c.methods, c.fallback, c.L = methods, fallback, L
            margs = max([sum(abi_size_fixed(t) for _, t in m.params) for m in methods] + [1])

            def make_inputs(L=L, margs=margs):
                name = [z3.BitVec(f'n_{i}', 8) for i in range(L)]
                args = [z3.BitVec(f'a_{i}', 8) for i in range(margs)]
                return name + args, {'name': name, 'args': args}, {}

            def spec(env, methods=methods, fallback=fallback, L=L):
                """-> list of (guard, revert, ret_alts) branches covering all names"""
                branches = []
                nomatch = []
                for m in methods:
                    if len(m.name) != L:
                        continue
                    g = z3.And(*[env['name'][i] == ord(ch) for i, ch in enumerate(m.name)])
                    nomatch.append(z3.Not(g))
                    bs = list(env['args'])
                    vals, valid = {}, []
                    for n_, t in m.params:
                        v, ok, bs = abi_decode(bs, t)
                        vals[n_] = v
                        valid.append(ok)
                    sp = Spec({})
                    fr = Frame(vals, {n_: t for n_, t in m.params})
                    val = ev(m.body, fr, sp, z3.BoolVal(True))
                    rev = z3.Or(sp.revert_cond(), z3.Not(z3.And(*valid)) if valid else z3.BoolVal(False))
                    branches.append((g, rev, abi_encode(val, m.ret)))
                gno = z3.And(*nomatch) if nomatch else z3.BoolVal(True)
                if fallback is None:
                    branches.append((gno, z3.BoolVal(True), None))
                else:
                    branches.append((gno, z3.BoolVal(False), abi_encode(z3.BitVecVal(int(fallback), 64), U64)))
                return branches
            c.make_inputs, c.spec = make_inputs, spec
            c.sample = {'methods': [m.name for m in methods], 'name_length': L, 'fallback': fallback}
            cases.append(c)
    return cases


# ----------------------------------------------------------------------------------- worker

def check_contract_case(args):
    import os, traceback
    from . import shared as T
    from .engine import Query, bytes_differ, outcome_summary, LIMITS_QUICK, LIMITS_THOROUGH
    from .symvm import SymVM, bv
    from .explore import model_bytes, concrete_outcome_of_paths
    ci, tier, seed = args
    c = T._G['cases'][ci]
    res = {'case': c.name, 'status': 'held', 'queries': 0, 'sat': 0, 'unsat': 0, 'unknown': 0, 'solver_s': 0.0, 'paths': {},
           'violations': [], 'unexplored': [], 'engine_errors': [], 'nontrivial': False, 'replayed': 0, 'steps': 0, 'tags': c.tags}
    try:
        limits = LIMITS_QUICK if tier == 'quick' else LIMITS_THOROUGH
        q = Query(limits['query_timeout_ms'])
        vm = T._vm()
        for prof in c.profiles:
            built = T._G['builds'].get((ci, prof))
            if built is not None and getattr(built, 'timed_out', False):
                res['unexplored'].append(f'{prof}: build timed out')
                continue
            if built is None or not built.ok:
                res['violations'].append({'what': 'valid program does not compile', 'variant': prof, 'log': (built.log[-600:] if built else '')})
                continue
            code = built.bytecode
            data, env, _ = c.make_inputs()
            sv = SymVM(**limits)
            st = frame_state(code, c.L, env['name'], env['args'])
            paths = sv.run(st)
            res['queries'] += sv.queries
            res['solver_s'] += sv.solver_time
            res['steps'] += sv.total_steps
            res['paths'][prof] = len(paths)
            unexp = [repr(p.outcome) for p in paths if not p.outcome.explored]
            if unexp:
                res['unexplored'].append(f'{prof}: ' + '; '.join(sorted(set(unexp))[:3]))
            if len(paths) > 1:
                res['nontrivial'] = True

            def concrete(name_b, args_b):
                return real_call(vm, code, bytes(name_b), bytes(args_b))

            def predicted(name_b, args_b):
                assign = [(t, b) for t, b in zip(env['name'], name_b)] + [(t, b) for t, b in zip(env['args'], args_b)]
                r = concrete_outcome_of_paths(paths, assign, sv.axioms)
                return r

            def same(pred, real):
                if pred is None or pred[1] is None:
                    return True
                po = pred[0]
                if po['kind'] != real['kind']:
                    return False
                if po['kind'] == 'returndata':
                    return po['data'] == real['data']
                if po['kind'] in ('return', 'revert'):
                    return po['value'] == real['value']
                if po['kind'] == 'panic':
                    return po['reason'] == real['reason']
                return True
            # validation of the frame emulation on fixed inputs: each method name, one wrong name
            fixed = []
            for m in c.methods:
                if len(m.name) == c.L:
                    fixed.append((m.name.encode(), bytes([1] * len(env['args']))))
                    fixed.append((m.name.encode(), bytes([0xff] * len(env['args']))))
            fixed.append((b'z' * c.L, bytes(len(env['args']))))
            for nb, ab in fixed:
                real = concrete(nb, ab)
                pred = predicted(nb, ab)
                if not same(pred, real):
                    res['engine_errors'].append({'variant': prof, 'why': 'emulated call frame disagrees with a real call', 'name': nb.decode('latin1'),
                                                 'args': ab.hex(), 'sv': pred, 'vm': real})
            branches = c.spec(env)
            reported = set()
            for p in paths:
                if not p.outcome.explored:
                    continue
                for g, rev, alts in branches:
                    base = list(sv.axioms) + list(p.cond) + [g]
                    checks = []
                    if p.outcome.reverts:
                        checks.append(('unexpected revert', [z3.Not(rev)]))
                    else:
                        checks.append(('missing revert', [rev]))
                        if alts is not None:
                            got = p.outcome.data if p.outcome.kind == 'returndata' else None
                            for g2, want in alts:
                                d = True if got is None else bytes_differ(got, want)
                                if d is not False:
                                    checks.append(('wrong result returned to the caller', [z3.Not(rev), g2] + ([] if d is True else [d])))
                    for what, extra in checks:
                        if what in reported:
                            continue
                        r, m = q.check(base + extra)
                        if r == z3.unknown:
                            res['unexplored'].append(f'{prof}: solver timeout ({what})')
                            continue
                        if r != z3.sat:
                            continue
                        nb = [m.eval(t, model_completion=True).as_long() for t in env['name']]
                        ab = [m.eval(t, model_completion=True).as_long() for t in env['args']]
                        real = concrete(nb, ab)
                        res['replayed'] += 1
                        exp_rev = z3.is_true(m.eval(rev, model_completion=True))
                        real_rev = real['kind'] in ('revert', 'panic')
                        bad = exp_rev != real_rev
                        want_bytes = None
                        if not bad and not exp_rev and alts is not None:
                            for g2, want in alts:
                                if z3.is_true(m.eval(g2, model_completion=True)):
                                    want_bytes = [m.eval(b, model_completion=True).as_long() for b in want]
                            bad = real.get('data') != want_bytes
                        if bad:
                            reported.add(what)
                            res['violations'].append({'what': what, 'variant': prof, 'method_name_bytes': bytes(nb).decode('latin1'), 'args': bytes(ab).hex(),
                                                      'expected': {'revert': exp_rev, 'return_data': want_bytes}, 'real_call': real})
                        else:
                            res['engine_errors'].append({'variant': prof, 'why': 'model did not reproduce through a real call', 'what': what,
                                                         'name': bytes(nb).decode('latin1'), 'args': bytes(ab).hex(), 'real': real})
        res['queries'] += q.n
        res['sat'], res['unsat'], res['unknown'] = q.sat, q.unsat, q.unknown
        res['solver_s'] += q.t
        if res['violations']:
            res['status'] = 'violation'
        elif res['engine_errors']:
            res['status'] = 'engine_error'
        elif res['unexplored']:
            res['status'] = 'partial' if res['paths'] else 'unexplored'
    except Exception as e:  # noqa
        res['status'] = 'engine_error'
        res['engine_errors'].append({'exception': repr(e), 'trace': traceback.format_exc()[-1500:]})
    return res
