"""Corpus of kernel programs (generated, seeded).  A *package* is one Sway script whose `main`
takes a concrete selector plus a pool of typed arguments and logs the result of the selected
kernel; one forc build therefore serves many kernels.  Every kernel comes with its AST, from which
both the Sway text and the reference semantics are produced (lang.py)."""
import random
import z3
from .lang import *

# ----------------------------------------------------------------------------- pools

S1 = Struct('S1', [('x', U64), ('y', U32), ('z', BOOL)])
S2 = Struct('S2', [('a', U8), ('b', U64), ('c', U8)])
E1 = Enum('E1', [('A', U64), ('B', U64), ('C', U64)])
E2 = Enum('E2', [('N', UNIT), ('V', U8), ('W', Tuple([U8, U64]))])   # result-only (variable size)
E3 = Enum('E3', [('P', UNIT), ('Q', UNIT), ('R', UNIT)])
NEST = Struct('Nest', [('s', S2), ('t', Tuple([U16, BOOL])), ('arr', Array(U8, 3))])

POOLS = {
    'int': [('a8', U8), ('b8', U8), ('a16', U16), ('b16', U16), ('a32', U32), ('b32', U32),
            ('a64', U64), ('b64', U64), ('c64', U64)],
    'wide': [('w', U256), ('v', U256), ('h', B256T), ('g', B256T), ('a64', U64)],
    'bool': [('p', BOOL), ('q', BOOL), ('a64', U64), ('b64', U64), ('a8', U8)],
    'aggA': [('t', Tuple([U64, U8])), ('s2', S2), ('arr', Array(U16, 3)), ('i', U64), ('a8', U8)],
    'aggB': [('s', S1), ('e', E1), ('i', U64), ('a8', U8)],
    'aggC': [('f', E3), ('n', NEST), ('i', U64), ('a8', U8)],
}


class Kernel:
    def __init__(self, name, fns, entry, args, family, note=''):
        self.name = name
        self.fns = fns          # [Fn] (entry last)
        self.entry = entry      # name of the fn called from main
        self.args = args        # pool argument names passed to entry, in order
        self.family = family
        self.note = note
        self.raw_sway = None    # optional verbatim Sway (asm kernels); then `spec_fn` gives the semantics
        self.spec_fn = None     # callable(env) -> (revert_cond, value, ty)
        self.ret = None
        self.tags = []


class Package:
    def __init__(self, name, pool, kernels):
        self.name = name
        self.pool = pool
        self.kernels = kernels

    @property
    def params(self):
        return POOLS[self.pool]

    def source(self):
        decls = []
        for k in self.kernels:
            for f in k.fns:
                for _, t in f.params:
                    if not isinstance(t, str):
                        user_types(t, decls)
                if not isinstance(f.ret, str):
                    user_types(f.ret, decls)
        for _, t in self.params:
            user_types(t, decls)
        for extra in getattr(self, 'extra_types', []):
            user_types(extra, decls)
        s = 'script;\n\n'
        for d in decls:
            s += d.decl() + '\n'
        for k in self.kernels:
            s += f'// kernel {k.name} [{k.family}] {k.note}\n'
            if k.raw_sway is not None:
                s += k.raw_sway + '\n'
            else:
                for f in k.fns:
                    s += fn_sway(f) + '\n'
        params = ', '.join(f'{n}: {t.sway()}' for n, t in self.params)
        s += f'fn main(sel: u64, {params}) {{\n'
        for i, k in enumerate(self.kernels):
            kw = 'if' if i == 0 else '} else if'
            s += f'    {kw} sel == {i} {{\n        log({k.entry}({", ".join(k.args)}));\n'
        s += '    }\n}\n'
        return s

    def data_layout(self):
        """script data: u64 selector followed by the pool arguments (ABI v1)."""
        out = [('sel', U64)] + list(self.params)
        return out


def input_terms(pkg, sel):
    """-> (data terms list (ints / z3 8-bit), env: name -> spec value, valid: z3 Bool, syms)"""
    data = [(sel >> (8 * (7 - i))) & 0xff for i in range(8)]
    env = {}
    valid = []
    syms = []
    for n, t in pkg.params:
        size = abi_size_fixed(t)
        bs = [z3.BitVec(f'{n}_{i}', 8) for i in range(size)]
        syms += bs
        v, c, rest = abi_decode(bs, t)
        assert not rest
        env[n] = v
        valid.append(c)
        data += bs
    return data, env, z3.And(*valid), syms


# ----------------------------------------------------------------------------- helpers

def fn1(name, params, ret, expr, attrs=(), stmts=()):
    return Fn(name, params, ret, Block(list(stmts), expr), attrs=attrs)


BOUNDARY = {
    8: [0, 1, 2, 7, 8, 127, 128, 254, 255],
    16: [0, 1, 2, 15, 16, 255, 256, 32768, 65534, 65535],
    32: [0, 1, 2, 31, 32, 65535, 65536, 1 << 31, (1 << 32) - 2, (1 << 32) - 1],
    64: [0, 1, 2, 63, 64, (1 << 32) - 1, 1 << 32, 1 << 63, (1 << 64) - 2, (1 << 64) - 1],
    256: [0, 1, 2, 255, 256, 1 << 64, (1 << 128) - 1, 1 << 255, (1 << 256) - 1],
}

ARITH = ['+', '-', '*', '/', '%']
BITS = ['&', '|', '^']
CMPS = ['==', '!=', '<', '>', '<=', '>=']


def pool_args_of(pool, ty):
    return [n for n, t in POOLS[pool] if t == ty]


# ----------------------------------------------------------------------------- families

def fam_binops(pool, types):
    ks = []
    for ty in types:
        names = pool_args_of(pool, ty)
        a, b = names[0], names[1]
        tn = ty.sway()
        ops = ARITH + BITS if ty.w <= 64 else ['+', '-'] + BITS
        for op in ops:
            nm = f'bin_{tn}_{OPN[op]}'
            ks.append(Kernel(nm, [fn1(nm, [('x', ty), ('y', ty)], ty, Bin(op, Var('x'), Var('y')))], nm,
                             [a, b], 'binop', f'x {op} y'))
        for op in CMPS:
            nm = f'cmp_{tn}_{OPN[op]}'
            ks.append(Kernel(nm, [fn1(nm, [('x', ty), ('y', ty)], BOOL, Bin(op, Var('x'), Var('y')))], nm,
                             [a, b], 'binop', f'x {op} y'))
        sh = pool_args_of(pool, U64)[0]
        for op in ('<<', '>>'):
            nm = f'sh_{tn}_{OPN[op]}'
            ks.append(Kernel(nm, [fn1(nm, [('x', ty), ('n', U64)], ty, Bin(op, Var('x'), Var('n')))], nm,
                             [a, sh], 'binop', f'x {op} n'))
        nm = f'not_{tn}'
        ks.append(Kernel(nm, [fn1(nm, [('x', ty)], ty, Un('!', Var('x')))], nm, [a], 'binop', '!x'))
    return ks


OPN = {'+': 'add', '-': 'sub', '*': 'mul', '/': 'div', '%': 'mod', '&': 'and', '|': 'or', '^': 'xor',
       '<<': 'shl', '>>': 'shr', '==': 'eq', '!=': 'ne', '<': 'lt', '>': 'gt', '<=': 'le', '>=': 'ge',
       '&&': 'land', '||': 'lor'}


def fam_const_operand(pool, types, rng, per_type=10):
    """x op C and C op x for boundary constants C (feeds folding / asm constant propagation)."""
    ks = []
    for ty in types:
        a = pool_args_of(pool, ty)[0]
        tn = ty.sway()
        combos = []
        ops = (ARITH + BITS + CMPS + ['<<', '>>']) if ty.w <= 64 else (['+', '-', '*', '/', '%'] + BITS + CMPS + ['<<', '>>'])
        for op in ops:
            consts = BOUNDARY[64] if op in ('<<', '>>') else BOUNDARY[ty.w]
            for c in consts:
                for side in ('r', 'l'):
                    if op in ('<<', '>>') and side == 'l':
                        continue
                    if ty.w == 256 and op in ('*', '/', '%') and c > 256:
                        continue
                    combos.append((op, c, side))
        rng.shuffle(combos)
        # always keep the identity / annihilator shapes the optimizers have rules for
        must = [(op, c, s) for (op, c, s) in combos if c in (0, 1) or (op in ('<<', '>>') and c in (0, 63, 64))]
        chosen = must + [x for x in combos if x not in must][:per_type]
        for op, c, side in chosen:
            lit = Lit(U64 if op in ('<<', '>>') else ty, c)
            ret = BOOL if op in CMPS else ty
            e = Bin(op, Var('x'), lit) if side == 'r' else Bin(op, lit, Var('x'))
            nm = f'k_{tn}_{OPN[op]}_{side}{c:x}'
            ks.append(Kernel(nm, [fn1(nm, [('x', ty)], ret, e)], nm, [a], 'constop',
                             f'{"x " + op + " C" if side == "r" else "C " + op + " x"} C={c:#x}'))
    return ks


def rand_expr(rng, ty, vars_by_type, depth):
    """random well-typed pure expression of type `ty`"""
    if depth == 0 or rng.random() < 0.15:
        cands = vars_by_type.get(ty, [])
        if cands and rng.random() < 0.7:
            return Var(rng.choice(cands))
        if isinstance(ty, Bool):
            return Lit(BOOL, rng.choice([0, 1]))
        return Lit(ty, rng.choice(BOUNDARY[ty.w]))
    if isinstance(ty, Bool):
        k = rng.random()
        if k < 0.45:
            it = rng.choice([t for t in vars_by_type if isinstance(t, UInt) and t.w <= 64] or [U64])
            return Bin(rng.choice(CMPS), rand_expr(rng, it, vars_by_type, depth - 1),
                       rand_expr(rng, it, vars_by_type, depth - 1))
        if k < 0.75:
            return Bin(rng.choice(['&&', '||', '==', '!=']), rand_expr(rng, BOOL, vars_by_type, depth - 1),
                       rand_expr(rng, BOOL, vars_by_type, depth - 1))
        if k < 0.9:
            return Un('!', rand_expr(rng, BOOL, vars_by_type, depth - 1))
        return IfE(rand_expr(rng, BOOL, vars_by_type, depth - 1), rand_expr(rng, BOOL, vars_by_type, depth - 1),
                   rand_expr(rng, BOOL, vars_by_type, depth - 1))
    k = rng.random()
    if k < 0.55:
        op = rng.choice(ARITH + BITS + BITS)
        if ty.w == 256 and op in ('*', '/', '%'):
            op = '+'
        return Bin(op, rand_expr(rng, ty, vars_by_type, depth - 1), rand_expr(rng, ty, vars_by_type, depth - 1))
    if k < 0.65:
        return Bin(rng.choice(['<<', '>>']), rand_expr(rng, ty, vars_by_type, depth - 1),
                   Lit(U64, rng.choice([0, 1, 3, 7, 8, 31, 63, 64, 65])))
    if k < 0.75:
        return Un('!', rand_expr(rng, ty, vars_by_type, depth - 1))
    if k < 0.9:
        return IfE(rand_expr(rng, BOOL, vars_by_type, depth - 1), rand_expr(rng, ty, vars_by_type, depth - 1),
                   rand_expr(rng, ty, vars_by_type, depth - 1))
    # width change
    if ty.w == 64:
        st = rng.choice([U8, U16, U32])
        return Cast(rand_expr(rng, st, vars_by_type, depth - 1), U64)
    if ty.w in (8, 16, 32):
        return TryCast(rand_expr(rng, U64, vars_by_type, depth - 1), ty, Lit(ty, rng.choice(BOUNDARY[ty.w])))
    return Bin('+', rand_expr(rng, ty, vars_by_type, depth - 1), rand_expr(rng, ty, vars_by_type, depth - 1))


def has_dead_trap(e, params, ret_ty):
    """True if for some input an arithmetic trap (overflow, underflow, division by zero) fires in a
    sub-expression whose value cannot influence the result (e.g. `(x - 1) & 0`). Sway documents such
    arithmetic as undefined behaviour and its optimizers remove dead pure operations, so whether the
    trap is observed depends on the pipeline; such kernels are not generated (stated in DESIGN.md).
    Decided by a solver query with the trapping operation's value replaced by a fresh constant
    (three-point independence test)."""
    sp = Spec({})
    sp.fresh_on_trap = True
    env, types = {}, {}
    for nm, t in params:
        env[nm] = z3.Bool(nm) if isinstance(t, Bool) else z3.BitVec(nm, t.w)
        types[nm] = t
    val = ev(e, Frame(env, types), sp, z3.BoolVal(True))
    if not sp.traps:
        return False
    s = z3.Solver()
    s.set('timeout', 3000)
    for cond, f in sp.traps:
        w = f.size()
        samples = [z3.substitute(val, (f, z3.BitVecVal(c, w))) for c in (0, 1, (1 << w) - 1, 0x5a5a5a5a5a5a5a5a & ((1 << w) - 1))]
        same = z3.And(*[samples[0] == x for x in samples[1:]])
        s.push()
        s.add(cond, same)
        r = s.check()
        s.pop()
        if r != z3.unsat:
            return True
    return False


def fam_random_exprs(pool, rng, n, depth=3):
    ks = []
    params = POOLS[pool]
    scal = [(nm, t) for nm, t in params if isinstance(t, (UInt, Bool)) and (not isinstance(t, UInt) or t.w <= 64)]
    for i in range(n):
        ty = rng.choice([t for _, t in scal])
        vbt = {}
        for nm, t in scal:
            vbt.setdefault(t, []).append(nm)
        for _attempt in range(50):
            e = rand_expr(rng, ty, vbt, depth)
            if not has_dead_trap(e, scal, ty):
                break
        nm = f'rx{i}_{ty.sway()}'
        ks.append(Kernel(nm, [fn1(nm, scal, ty, e)], nm, [n_ for n_, _ in scal], 'randexpr', f'depth {depth}'))
    return ks


def fam_random_stmts(pool, rng, n):
    """random structured programs: nested counted loops (<= 3 levels, <= 3 iterations each), if/else,
    break/continue at any level, assignments of non-trapping expressions. Non-trapping operators only,
    so that no arithmetic trap can become dead code (see has_dead_trap)."""
    ks = []
    NT = ['&', '|', '^']

    def expr(vars_, counters, d):
        k = rng.random()
        if d == 0 or k < 0.3:
            c = rng.random()
            if counters and c < 0.3:
                return Var(rng.choice(counters))
            if c < 0.8:
                return Var(rng.choice(vars_))
            return Lit(U64, rng.choice([0, 1, 3, 0xff, 1 << 32, (1 << 64) - 1]))
        if k < 0.75:
            return Bin(rng.choice(NT), expr(vars_, counters, d - 1), expr(vars_, counters, d - 1))
        if k < 0.9:
            return Bin(rng.choice(['<<', '>>']), expr(vars_, counters, d - 1), Lit(U64, rng.choice([1, 4, 17, 63])))
        return Un('!', expr(vars_, counters, d - 1))

    def cond(vars_, counters, budget):
        # conditions on loop counters are concrete at run time; conditions on data fork the symbolic execution
        if counters and (budget[0] <= 0 or rng.random() < 0.55):
            c = rng.choice(counters)
            return Bin(rng.choice(['==', '!=', '<', '>']), Var(c), Lit(U64, rng.choice([0, 1, 2, 3])))
        budget[0] -= 1
        return Bin(rng.choice(['==', '!=', '<']), Bin('&', expr(vars_, counters, 1), Lit(U64, rng.choice([1, 3, 0x80]))), Lit(U64, rng.choice([0, 1])))

    def stmts(vars_, counters, depth, in_loop, budget, size):
        out = []
        for _ in range(size):
            k = rng.random()
            if k < 0.45:
                out.append(Assign(rng.choice(vars_), expr(vars_, counters, 2)))
            elif k < 0.65 and depth < 3:
                ctr = f'i{depth}_{rng.randrange(1000)}'
                bound = rng.choice([1, 2, 3])
                body = [Assign(ctr, Bin('+', Var(ctr), Lit(U64, 1)))] + stmts(vars_, counters + [ctr], depth + 1, True, budget, rng.randint(1, 3))
                out.append(Let(ctr, Lit(U64, 0), mut=True))
                out.append(While(Bin('<', Var(ctr), Lit(U64, bound)), body, bound))
            elif k < 0.85:
                c = cond(vars_, counters, budget)
                t = stmts(vars_, counters, depth, in_loop, budget, rng.randint(1, 2))
                e = stmts(vars_, counters, depth, in_loop, budget, 1) if rng.random() < 0.4 else None
                out.append(IfS(c, t, e))
            elif in_loop:
                c = cond(vars_, counters, budget)
                out.append(IfS(c, [rng.choice([Break(), Continue(), Continue()])]))
            else:
                out.append(Assign(rng.choice(vars_), expr(vars_, counters, 1)))
        return out

    for i in range(n):
        vars_ = ['v0', 'v1', 'v2']
        budget = [4]
        body = [Let('v0', Var('x'), mut=True), Let('v1', Var('y'), mut=True), Let('v2', Var('z'), mut=True)]
        body += stmts(vars_, [], 0, False, budget, rng.randint(3, 5))
        res = Bin('^', Bin('^', Var('v0'), Bin('<<', Var('v1'), Lit(U64, 1))), Bin('>>', Var('v2'), Lit(U64, 1)))
        nm = f'rs{i}'
        ks.append(Kernel(nm, [Fn(nm, [('x', U64), ('y', U64), ('z', U64)], U64, Block(body, res))], nm, ['a64', 'b64', 'c64'], 'randstmt',
                         'random nested loops / if / break / continue over non-trapping expressions'))
    return ks


def fam_constfold(rng, n):
    """all-literal expressions (the compiler may evaluate them at compile time: IR constant folding,
    asm constant propagation) against the reference semantics; operands are drawn from the boundary
    sets. No input quantifier here: this is the enumerated half of C06 (it also reaches the u256
    folding arms that the Kani harnesses exclude)."""
    ks = []
    combos = []
    for ty in (U8, U16, U32, U64, U256):
        ops = ARITH + BITS + CMPS + ['<<', '>>']
        for op in ops:
            for a in BOUNDARY[ty.w]:
                for b in (BOUNDARY[64] if op in ('<<', '>>') else BOUNDARY[ty.w]):
                    combos.append((ty, op, a, b))
    rng.shuffle(combos)
    for i, (ty, op, a, b) in enumerate(combos[:n]):
        rt = U64 if op in ('<<', '>>') else ty
        ret = BOOL if op in CMPS else ty
        nm = f'cf{i}_{ty.sway()}_{OPN[op]}'
        e = Bin(op, Lit(ty, a), Lit(rt, b))
        # a second, nested shape: (a op b) combined with an identity so that folding happens in two steps
        if i % 3 == 0 and op not in CMPS:
            e = Bin('|', e, Lit(ty, 0))
        ks.append(Kernel(nm, [Fn(nm, [], ret, Block([], e))], nm, [], 'constfold', f'{a:#x} {op} {b:#x} on {ty.sway()}'))
    return ks


def fam_control(pool):
    """hand-shaped control-flow kernels: loops with concrete bounds, break/continue, early return,
    nested ifs, mutation."""
    ks = []
    a, b, c = 'a64', 'b64', 'c64'
    P = [('x', U64), ('y', U64), ('z', U64)]

    def K(nm, body_stmts, e, note, params=P, ret=U64, args=(a, b, c), extra=()):
        ks.append(Kernel(nm, list(extra) + [Fn(nm, params, ret, Block(body_stmts, e))], nm, list(args), 'control', note))

    # sum of x over 4 iterations with overflow
    K('loop_sum', [Let('acc', Var('y'), mut=True), Let('i', Lit(U64, 0), mut=True),
                   While(Bin('<', Var('i'), Lit(U64, 4)),
                         [Assign('acc', Bin('+', Var('acc'), Var('x'))), Assign('i', Bin('+', Var('i'), Lit(U64, 1)))], 4)],
      Var('acc'), 'acc += x, 4 times')
    K('loop_break', [Let('acc', Lit(U64, 0), mut=True), Let('i', Lit(U64, 0), mut=True),
                     While(Bin('<', Var('i'), Lit(U64, 4)),
                           [IfS(Bin('==', Var('i'), Bin('%', Var('x'), Lit(U64, 8))), [Break()]),
                            Assign('acc', Bin('+', Var('acc'), Bin('^', Var('y'), Var('i')))),
                            Assign('i', Bin('+', Var('i'), Lit(U64, 1)))], 4)],
      Bin('|', Var('acc'), Bin('<<', Var('i'), Lit(U64, 60))), 'break at i == x % 8')
    K('loop_continue', [Let('acc', Lit(U64, 0), mut=True), Let('i', Lit(U64, 0), mut=True),
                        While(Bin('<', Var('i'), Lit(U64, 4)),
                              [Assign('i', Bin('+', Var('i'), Lit(U64, 1))),
                               IfS(Bin('==', Bin('&', Var('x'), Var('i')), Lit(U64, 0)), [Continue()]),
                               Assign('acc', Bin('+', Var('acc'), Bin('*', Var('y'), Var('i'))))], 4)],
      Var('acc'), 'continue when x & i == 0')
    K('early_return', [IfS(Bin('<', Var('x'), Var('y')), [Return(Bin('-', Var('y'), Var('x')))]),
                       IfS(Bin('==', Var('x'), Var('y')), [Return(Var('z'))])],
      Bin('-', Var('x'), Var('y')), 'abs diff with early returns')
    K('nested_if', [Let('r', Lit(U64, 0), mut=True),
                    IfS(Bin('>', Var('x'), Lit(U64, 10)),
                        [IfS(Bin('>', Var('y'), Lit(U64, 20)), [Assign('r', Bin('+', Var('x'), Var('y')))],
                             [Assign('r', Bin('-', Var('x'), Lit(U64, 10)))])],
                        [IfS(Bin('&&', Bin('!=', Var('z'), Lit(U64, 0)), Bin('==', Bin('%', Var('y'), Var('z')), Lit(U64, 1))),
                             [Assign('r', Lit(U64, 77))], [Assign('r', Var('z'))])])],
      Var('r'), 'nested if/else with short-circuit guard on modulo')
    K('shortcircuit_div', [], IfE(Bin('||', Bin('==', Var('y'), Lit(U64, 0)), Bin('>', Bin('/', Var('x'), Var('y')), Var('z'))),
                                  Lit(U64, 1), Lit(U64, 0)), 'y == 0 || x / y > z')
    K('require_assert', [Require(Bin('<', Var('x'), Lit(U64, 1000)), 'require'), Require(Bin('!=', Var('y'), Var('z')), 'assert')],
      Bin('*', Var('x'), Var('x')), 'require + assert then x*x')
    K('explicit_revert', [IfS(Bin('==', Bin('&', Var('x'), Lit(U64, 3)), Lit(U64, 3)), [Revert(42)])],
      Bin('+', Var('x'), Lit(U64, 1)), 'revert(42) on x & 3 == 3')
    K('loop_nested', [Let('acc', Lit(U64, 0), mut=True), Let('i', Lit(U64, 0), mut=True),
                      While(Bin('<', Var('i'), Lit(U64, 3)),
                            [Let('j', Lit(U64, 0), mut=True),
                             While(Bin('<', Var('j'), Lit(U64, 2)),
                                   [Assign('acc', Bin('+', Var('acc'), Bin('&', Var('x'), Bin('+', Bin('*', Var('i'), Lit(U64, 2)), Var('j'))))),
                                    Assign('j', Bin('+', Var('j'), Lit(U64, 1)))], 2),
                             Assign('i', Bin('+', Var('i'), Lit(U64, 1)))], 3)],
      Var('acc'), 'nested loops 3x2')
    K('loop_data_bound', [Let('n', Bin('%', Var('x'), Lit(U64, 4))), Let('acc', Var('y'), mut=True), Let('i', Lit(U64, 0), mut=True),
                          While(Bin('<', Var('i'), Var('n')),
                                [Assign('acc', Bin('+', Bin('>>', Var('acc'), Lit(U64, 1)), Var('z'))),
                                 Assign('i', Bin('+', Var('i'), Lit(U64, 1)))], 3)],
      Var('acc'), 'trip count x % 4 (data dependent, <= 3)')
    # a condition tested twice with an empty hook in the first `if` (the first diamond collapses to `cbr c, X, X`)
    noops = [Fn(f'noop_hook{i}', [('v', U64)], UNIT, Block([], None)) for i in range(3)]
    K('twice_tested_flag', [Let('c', Bin('>', Var('x'), Var('y'))), Let('r', Bin('+', Var('z'), Lit(U64, 1)), mut=True),
                            IfS(Var('c'), [ExprS(Call('noop_hook0', [Var('r')]))]),
                            IfS(Var('c'), [Assign('r', Bin('*', Var('r'), Lit(U64, 2)))])],
      Var('r'), 'if c { noop(r) } if c { r *= 2 }', extra=[noops[0]])
    K('twice_tested_revert', [Let('c', Bin('==', Bin('&', Var('x'), Lit(U64, 1)), Lit(U64, 1))),
                              IfS(Var('c'), [ExprS(Call('noop_hook1', [Var('y')]))]),
                              IfS(Var('c'), [Revert(9)])],
      Bin('^', Var('y'), Var('z')), 'if c { noop(y) } if c { revert }', extra=[noops[1]])
    K('twice_tested_else', [Let('c', Bin('<', Var('x'), Lit(U64, 100))), Let('r', Var('y'), mut=True),
                            IfS(Var('c'), [ExprS(Call('noop_hook2', [Var('x')]))], [ExprS(Call('noop_hook2', [Var('y')]))]),
                            IfS(Var('c'), [Assign('r', Bin('|', Var('r'), Lit(U64, 1)))], [Assign('r', Bin('&', Var('r'), Lit(U64, 0xff)))]),
                            IfS(Un('!', Var('c')), [Assign('r', Bin('^', Var('r'), Var('z')))])],
      Var('r'), 'both arms empty hooks, then the flag is tested again twice', extra=[noops[2]])
    # nested loops with `continue`/`break` of the outer loop placed after the inner loop
    K('loop_nested_outer_continue', [Let('acc', Lit(U64, 0), mut=True), Let('i', Lit(U64, 0), mut=True),
                                     While(Bin('<', Var('i'), Lit(U64, 3)),
                                           [Assign('i', Bin('+', Var('i'), Lit(U64, 1))), Let('j', Lit(U64, 0), mut=True),
                                            While(Bin('<', Var('j'), Lit(U64, 2)),
                                                  [Assign('acc', Bin('^', Bin('<<', Var('acc'), Lit(U64, 3)), Bin('&', Var('x'), Bin('|', Var('i'), Bin('<<', Var('j'), Lit(U64, 4)))))),
                                                   Assign('j', Bin('+', Var('j'), Lit(U64, 1)))], 2),
                                            IfS(Bin('==', Bin('&', Bin('>>', Var('y'), Var('i')), Lit(U64, 1)), Lit(U64, 0)), [Continue()]),
                                            Assign('acc', Bin('^', Var('acc'), Var('z')))], 3)],
      Var('acc'), 'outer continue after the inner loop')
    K('loop_nested_outer_break', [Let('acc', Var('z'), mut=True), Let('i', Lit(U64, 0), mut=True),
                                  While(Bin('<', Var('i'), Lit(U64, 3)),
                                        [Let('j', Lit(U64, 0), mut=True),
                                         While(Bin('<', Var('j'), Lit(U64, 2)),
                                               [Assign('j', Bin('+', Var('j'), Lit(U64, 1))),
                                                IfS(Bin('==', Var('j'), Lit(U64, 1)), [Continue()]),
                                                Assign('acc', Bin('|', Bin('<<', Var('acc'), Lit(U64, 1)), Bin('&', Var('x'), Lit(U64, 1))))], 2),
                                         Assign('i', Bin('+', Var('i'), Lit(U64, 1))),
                                         IfS(Bin('==', Var('i'), Bin('&', Var('y'), Lit(U64, 3))), [Break()]),
                                         IfS(Bin('==', Bin('&', Var('x'), Var('i')), Lit(U64, 2)), [Continue()]),
                                         Assign('acc', Bin('^', Var('acc'), Var('i')))], 3)],
      Var('acc'), 'inner continue, outer break and outer continue after the inner loop')
    # references: mutation through &mut, reference passed to an out-of-line function
    K('ref_update', [Let('v', Var('x'), mut=True), ViaRef('r', 'v', Bin('+', Deref('r', 'v'), Var('y'))),
                     IfS(Bin('>', Var('v'), Var('z')), [ViaRef('r2', 'v', Bin('-', Deref('r2', 'v'), Var('z')))])],
      Var('v'), 'let r = &mut v; *r = *r + y; conditional second update through another reference')
    K('ref_loop', [Let('acc', Lit(U64, 1), mut=True), Let('i', Lit(U64, 0), mut=True),
                   While(Bin('<', Var('i'), Lit(U64, 3)),
                         [ViaRef('r', 'acc', Bin('^', Bin('<<', Deref('r', 'acc'), Lit(U64, 1)), Var('x'))),
                          Assign('i', Bin('+', Var('i'), Lit(U64, 1)))], 3)],
      Bin('|', Var('acc'), Var('y')), 'update through a reference inside a loop')
    # u8 accumulator overflow inside loop
    K('loop_u8', [Let('acc', Var('x'), mut=True), Let('i', Lit(U8, 0), mut=True),
                  While(Bin('<', Var('i'), Lit(U8, 3)),
                        [Assign('acc', Bin('+', Var('acc'), Var('y'))), Assign('i', Bin('+', Var('i'), Lit(U8, 1)))], 3)],
      Var('acc'), 'u8 accumulator', params=[('x', U8), ('y', U8)], ret=U8, args=('a8', 'b8'))
    return ks


def fam_calls(pool):
    """call-graph shapes: inline(never) helpers, near-duplicate functions (fn-dedup fodder),
    generic functions instantiated at two types, argument passing of many values."""
    ks = []

    def K(nm, fns, args, note):
        ks.append(Kernel(nm, fns, nm, list(args), 'calls', note))

    h1 = Fn('dup_a', [('x', U64), ('y', U64)], U64, Block([], Bin('+', Bin('*', Var('x'), Lit(U64, 3)), Var('y'))), attrs=['inline(never)'])
    h2 = Fn('dup_b', [('x', U64), ('y', U64)], U64, Block([], Bin('+', Bin('*', Var('x'), Lit(U64, 3)), Var('y'))), attrs=['inline(never)'])
    h3 = Fn('dup_c', [('x', U64), ('y', U64)], U64, Block([], Bin('+', Bin('*', Var('x'), Lit(U64, 5)), Var('y'))), attrs=['inline(never)'])
    K('call_dups', [h1, h2, h3, Fn('call_dups', [('x', U64), ('y', U64)], U64,
                                  Block([], Bin('^', Bin('^', Call('dup_a', [Var('x'), Var('y')]), Call('dup_b', [Var('y'), Var('x')])),
                                                Call('dup_c', [Var('x'), Var('x')]))))],
      ('a64', 'b64'), 'identical and near-identical helpers')
    # near duplicates differing only in a constant deep inside and in types
    d1 = Fn('nd_a', [('x', U8)], U8, Block([Let('t', Bin('&', Var('x'), Lit(U8, 0x0f)))], Bin('+', Var('t'), Lit(U8, 1))), attrs=['inline(never)'])
    d2 = Fn('nd_b', [('x', U8)], U8, Block([Let('t', Bin('&', Var('x'), Lit(U8, 0x0f)))], Bin('+', Var('t'), Lit(U8, 2))), attrs=['inline(never)'])
    d3 = Fn('nd_c', [('x', U16)], U16, Block([Let('t', Bin('&', Var('x'), Lit(U16, 0x0f)))], Bin('+', Var('t'), Lit(U16, 1))), attrs=['inline(never)'])
    K('call_neardups', [d1, d2, d3, Fn('call_neardups', [('x', U8), ('y', U16)], U64,
                                      Block([], Bin('+', Bin('+', Cast(Call('nd_a', [Var('x')]), U64), Cast(Call('nd_b', [Var('x')]), U64)),
                                                    Cast(Call('nd_c', [Var('y')]), U64))))],
      ('a8', 'a16'), 'near-duplicates over u8/u16')
    g = Fn('gen_pick', [('c', BOOL), ('x', 'T'), ('y', 'T')], 'T', Block([], IfE(Var('c'), Var('x'), Var('y'))), generics=[('T', U64)])
    g8 = Fn('gen_pick8', [('c', BOOL), ('x', 'T'), ('y', 'T')], 'T', Block([], IfE(Var('c'), Var('x'), Var('y'))), generics=[('T', U8)])
    K('call_generic', [g, g8, Fn('call_generic', [('x', U64), ('y', U64), ('p', U8), ('q', U8)], U64,
                                 Block([], Bin('+', Call('gen_pick', [Bin('<', Var('x'), Var('y')), Var('x'), Var('y')]),
                                               Cast(Call('gen_pick8', [Bin('>', Var('p'), Var('q')), Var('p'), Var('q')]), U64))))],
      ('a64', 'b64', 'a8', 'b8'), 'generic fn at u64 and u8 (two textual copies: generics are monomorphised)')
    many = Fn('many_args', [(f'p{i}', U64) for i in range(8)], U64,
              Block([], Bin('^', Bin('+', Bin('-', Var('p0'), Var('p7')), Bin('&', Var('p1'), Var('p6'))),
                            Bin('|', Bin('^', Var('p2'), Var('p5')), Bin('>>', Var('p3'), Bin('&', Var('p4'), Lit(U64, 63)))))),
              attrs=['inline(never)'])
    K('call_many', [many, Fn('call_many', [('x', U64), ('y', U64), ('z', U64)], U64,
                             Block([], Call('many_args', [Var('x'), Var('y'), Var('z'), Bin('^', Var('x'), Var('y')),
                                                          Bin('|', Var('y'), Var('z')), Bin('&', Var('x'), Var('z')),
                                                          Un('!', Var('x')), Var('z')])))],
      ('a64', 'b64', 'c64'), '8 arguments (stack-passed beyond 6)')
    # argument forwarding between out-of-line functions, in every order (register shuffles at call sites)
    import itertools
    for n in (2, 3):
        names = ['x', 'y', 'z'][:n]
        body = Var('p0')
        for i in range(1, n):
            body = Bin('^', Bin('-', Bin('|', body, Lit(U64, 1 << (60 + i))), Var(f'p{i}')), Bin('<<', Var(f'p{i}'), Lit(U64, 7 * i)))
        for pi, perm in enumerate(itertools.permutations(range(n))):
            callee = Fn(f'fwd{n}_{pi}_callee', [(f'p{i}', U64) for i in range(n)], U64, Block([], body), attrs=['inline(never)'])
            mid = Fn(f'fwd{n}_{pi}_mid', [(nm, U64) for nm in names], U64,
                     Block([], Call(f'fwd{n}_{pi}_callee', [Var(names[j]) for j in perm])), attrs=['inline(never)'])
            top = Fn(f'fwd{n}_{pi}', [(nm, U64) for nm in names], U64, Block([], Call(f'fwd{n}_{pi}_mid', [Var(nm) for nm in names])))
            K(f'fwd{n}_{pi}', [callee, mid, top], ['a64', 'b64', 'c64'][:n], f'out-of-line fn forwards its parameters to an out-of-line callee in order {perm}')
    dupfwd_callee = Fn('dupfwd_callee', [('p', U64), ('q', U64), ('r', U64)], U64,
                       Block([], Bin('^', Bin('-', Bin('|', Var('p'), Lit(U64, 1 << 63)), Var('q')), Bin('<<', Var('r'), Lit(U64, 9)))), attrs=['inline(never)'])
    dupfwd_mid = Fn('dupfwd_mid', [('x', U64), ('y', U64)], U64,
                    Block([], Call('dupfwd_callee', [Var('y'), Var('y'), Var('x')])), attrs=['inline(never)'])
    K('dupfwd', [dupfwd_callee, dupfwd_mid, Fn('dupfwd', [('x', U64), ('y', U64)], U64, Block([], Call('dupfwd_mid', [Var('x'), Var('y')])))],
      ('a64', 'b64'), 'parameter duplicated and rotated when forwarded')
    expfwd_mid = Fn('expfwd_mid', [('x', U64), ('y', U64)], U64,
                    Block([], Call('dupfwd_callee', [Bin('&', Var('y'), Lit(U64, 0xffff)), Var('x'), Var('y')])), attrs=['inline(never)'])
    K('expfwd', [expfwd_mid, Fn('expfwd', [('x', U64), ('y', U64)], U64, Block([], Call('expfwd_mid', [Var('x'), Var('y')])))],
      ('a64', 'b64'), 'computed first argument, then rotated parameters')
    chain3 = Fn('ch3', [('x', U64)], U64, Block([], Bin('/', Lit(U64, 1000), Var('x'))), attrs=['inline(never)'])
    chain2 = Fn('ch2', [('x', U64), ('y', U64)], U64, Block([Let('t', Call('ch3', [Var('y')]))], Bin('+', Var('t'), Var('x'))), attrs=['inline(never)'])
    K('call_chain', [chain3, chain2, Fn('call_chain', [('x', U64), ('y', U64)], U64,
                                       Block([Let('u', Call('ch2', [Var('x'), Var('y')])), Let('v', Call('ch2', [Var('u'), Bin('+', Var('y'), Lit(U64, 1))]))],
                                             Bin('-', Var('v'), Var('u'))))],
      ('a64', 'b64'), 'call chain with live values across calls')
    return ks


def fam_aggregates(pool):
    ks = []

    def K(nm, fns, args, note):
        ks.append(Kernel(nm, fns, nm, list(args), 'aggregate', note))

    K('tup_swap', [Fn('tup_swap', [('t', Tuple([U64, U8]))], Tuple([U8, U64]), Block([], MkTuple([TupGet(Var('t'), 1), TupGet(Var('t'), 0)])))],
      ('t',), 'swap tuple fields')
    K('struct_fields', [Fn('struct_fields', [('s', S1)], U64,
                           Block([], IfE(Field(Var('s'), 'z'), Bin('+', Field(Var('s'), 'x'), Cast(Field(Var('s'), 'y'), U64)), Field(Var('s'), 'x'))))],
      ('s',), 'field reads')
    K('struct_update', [Fn('struct_update', [('s', S2), ('k', U8)], S2,
                           Block([Let('r', Var('s'), mut=True), AssignField('r', ['a'], Bin('+', Field(Var('s'), 'c'), Var('k'))),
                                  AssignField('r', ['b'], Bin('*', Field(Var('s'), 'b'), Lit(U64, 2)))], Var('r')))],
      ('s2', 'a8'), 'copy + field mutation (u8 next to u64: padding)')
    K('struct_eq', [Fn('struct_eq', [('s', S2), ('k', U8)], BOOL,
                       Block([], Bin('==', Field(Var('s'), 'a'), Var('k'))))], ('s2', 'a8'), 'field compare')
    K('enum_match', [Fn('enum_match', [('e', E1)], U64,
                        Block([], Match(Var('e'), [(PEnum(E1, 'A', PBind('x')), Bin('+', Var('x'), Lit(U64, 1))),
                                                   (PEnum(E1, 'B', PBind('y')), Bin('*', Var('y'), Lit(U64, 2))),
                                                   (PEnum(E1, 'C', PWild()), Lit(U64, 9))])))],
      ('e',), 'match on enum with payloads')
    K('enum_make', [Fn('enum_make', [('x', U64), ('k', U8)], E2,
                       Block([], IfE(Bin('==', Var('k'), Lit(U8, 0)), MkEnum(E2, 'N'),
                                     IfE(Bin('<', Var('k'), Lit(U8, 100)), MkEnum(E2, 'V', Var('k')),
                                         MkEnum(E2, 'W', MkTuple([Var('k'), Var('x')]))))))],
      ('i', 'a8'), 'construct enum with differently sized variants')
    K('enum_unit', [Fn('enum_unit', [('f', E3)], U8,
                       Block([], Match(Var('f'), [(PEnum(E3, 'P'), Lit(U8, 10)), (PEnum(E3, 'Q'), Lit(U8, 20)), (PEnum(E3, 'R'), Lit(U8, 30))])))],
      ('f',), 'unit-variant enum')
    K('arr_index', [Fn('arr_index', [('arr', Array(U16, 3)), ('i', U64)], U16, Block([], Index(Var('arr'), Var('i'))))],
      ('arr', 'i'), 'dynamic index with bounds check')
    ks[-1].tags = ['dyn-array-index']
    K('arr_sum', [Fn('arr_sum', [('arr', Array(U16, 3))], U16,
                     Block([Let('acc', Lit(U16, 0), mut=True), Let('i', Lit(U64, 0), mut=True),
                            While(Bin('<', Var('i'), Lit(U64, 3)),
                                  [Assign('acc', Bin('+', Var('acc'), Index(Var('arr'), Var('i')))),
                                   Assign('i', Bin('+', Var('i'), Lit(U64, 1)))], 3)], Var('acc')))],
      ('arr',), 'sum array (u16 overflow)')
    K('arr_store', [Fn('arr_store', [('arr', Array(U16, 3)), ('i', U64), ('k', U8)], Array(U16, 3),
                       Block([Let('r', Var('arr'), mut=True), AssignIndex('r', Var('i'), Cast(Var('k'), U16))], Var('r')))],
      ('arr', 'i', 'a8'), 'dynamic store with bounds check')
    ks[-1].tags = ['dyn-array-index']
    K('nest_read', [Fn('nest_read', [('n', NEST)], U64,
                       Block([], Bin('+', Bin('+', Cast(Field(Field(Var('n'), 's'), 'a'), U64), Field(Field(Var('n'), 's'), 'b')),
                                     IfE(TupGet(Field(Var('n'), 't'), 1), Cast(Index(Field(Var('n'), 'arr'), Lit(U64, 2)), U64),
                                         Cast(TupGet(Field(Var('n'), 't'), 0), U64)))))],
      ('n',), 'nested struct/tuple/array reads')
    K('nest_pass', [Fn('nest_id', [('n', NEST)], NEST, Block([], Var('n')), attrs=['inline(never)']),
                    Fn('nest_pass', [('n', NEST)], NEST, Block([Let('m', Call('nest_id', [Var('n')]))], Var('m')))],
      ('n',), 'aggregate passed and returned through a call')
    K('tuple_eq', [Fn('tuple_eq', [('t', Tuple([U64, U8])), ('i', U64), ('k', U8)], BOOL,
                      Block([], Bin('==', Var('t'), MkTuple([Var('i'), Var('k')]))))], ('t', 'i', 'a8'), 'tuple equality')
    K('match_tuple', [Fn('match_tuple', [('t', Tuple([U64, U8]))], U64,
                         Block([], Match(Var('t'), [(PTuple([PLit(U64, 0), PWild()]), Lit(U64, 100)),
                                                    (PTuple([PBind('x'), PLit(U8, 7)]), Bin('+', Var('x'), Lit(U64, 7))),
                                                    (PTuple([PWild(), POr([PLit(U8, 1), PLit(U8, 2)])]), Lit(U64, 12)),
                                                    (PTuple([PBind('x'), PBind('y')]), Bin('^', Var('x'), Cast(Var('y'), U64)))])))],
      ('t',), 'match on tuple with literals, or-pattern, bindings')
    # copies of aggregates followed by writes to one side and reads of the other (value semantics of
    # `let snap = cur;`): shapes in which copy propagation / memcpy optimizations must notice the write
    k64 = Cast(Var('k'), U64)
    pre = [Let('cur', Var('s'), mut=True), IfS(Bin('==', Var('k'), Lit(U8, 0)), [AssignField('cur', ['a'], Lit(U8, 1))])]
    K('snap_struct', [Fn('snap_struct', [('s', S2), ('k', U8)], Tuple([U64, U64, U8, U8]),
                         Block(pre + [Let('snap', Var('cur')), AssignField('cur', ['b'], Bin('^', Field(Var('cur'), 'b'), Lit(U64, 0xdead))),
                                      AssignField('cur', ['c'], Var('k'))],
                               MkTuple([Field(Var('snap'), 'b'), Field(Var('cur'), 'b'), Field(Var('snap'), 'c'), Field(Var('snap'), 'a')])))],
      ('s2', 'a8'), 'snapshot of a struct, then non-first fields of the original overwritten, snapshot read')
    K('snap_struct_rev', [Fn('snap_struct_rev', [('s', S2), ('k', U8)], Tuple([U64, U64, U8]),
                             Block(pre + [Let('snap', Var('cur'), mut=True), AssignField('snap', ['b'], k64), AssignField('snap', ['c'], Lit(U8, 3))],
                                   MkTuple([Field(Var('cur'), 'b'), Field(Var('snap'), 'b'), Field(Var('cur'), 'c')])))],
      ('s2', 'a8'), 'copy modified, original read')
    K('snap_return', [Fn('snap_return', [('s', S2), ('k', U8)], S2,
                         Block(pre + [Let('snap', Var('cur')), AssignField('cur', ['b'], Lit(U64, 0xdead)), AssignField('cur', ['c'], Lit(U8, 0xee))], Var('snap')))],
      ('s2', 'a8'), 'snapshot returned whole after the original was overwritten')
    K('snap_whole', [Fn('snap_whole', [('s', S2), ('k', U8)], Tuple([U64, U64, U8]),
                        Block(pre + [Let('saved', Field(Var('cur'), 'b')), Let('snap', Var('cur')),
                                     Assign('cur', MkStruct(S2, [Lit(U8, 7), Lit(U64, 8), Var('k')]))],
                              MkTuple([Var('saved'), Field(Var('snap'), 'b'), Field(Var('cur'), 'c')])))],
      ('s2', 'a8'), 'field saved into a scalar and snapshot taken, then the whole original overwritten')
    K('snap_tuple', [Fn('snap_tuple', [('t', Tuple([U64, U8])), ('k', U8)], Tuple([U8, U8, U64]),
                        Block([Let('cur', Var('t'), mut=True), IfS(Bin('==', Var('k'), Lit(U8, 0)), [AssignField('cur', ['0'], Lit(U64, 1))]),
                               Let('snap', Var('cur')), AssignField('cur', ['1'], Var('k'))],
                              MkTuple([TupGet(Var('snap'), 1), TupGet(Var('cur'), 1), TupGet(Var('snap'), 0)])))],
      ('t', 'a8'), 'tuple snapshot, second element of the original overwritten')
    K('snap_array', [Fn('snap_array', [('arr', Array(U16, 3)), ('k', U8)], Tuple([U16, U16, U16]),
                        Block([Let('cur', Var('arr'), mut=True), IfS(Bin('==', Var('k'), Lit(U8, 0)), [AssignIndex('cur', Lit(U64, 0), Lit(U16, 1))]),
                               Let('snap', Var('cur')), AssignIndex('cur', Lit(U64, 2), Cast(Var('k'), U16)), AssignIndex('cur', Lit(U64, 1), Lit(U16, 77))],
                              MkTuple([Index(Var('snap'), Lit(U64, 2)), Index(Var('cur'), Lit(U64, 2)), Index(Var('snap'), Lit(U64, 1))])))],
      ('arr', 'a8'), 'array snapshot, constant-index elements of the original overwritten')
    K('snap_loop', [Fn('snap_loop', [('s', S2), ('k', U8)], Tuple([U64, U64, U8]),
                       Block([Let('state', Var('s'), mut=True), Let('acc', Lit(U64, 0), mut=True), Let('j', Lit(U64, 0), mut=True),
                              While(Bin('<', Var('j'), Lit(U64, 2)),
                                    [Let('before', Var('state')),
                                     AssignField('state', ['b'], Bin('^', Field(Var('state'), 'b'), Bin('+', k64, Var('j')))),
                                     AssignField('state', ['c'], Var('k')),
                                     Assign('acc', Bin('^', Bin('<<', Var('acc'), Lit(U64, 7)), Bin('^', Field(Var('before'), 'b'), Cast(Field(Var('before'), 'c'), U64)))),
                                     Assign('j', Bin('+', Var('j'), Lit(U64, 1)))], 2)],
                             MkTuple([Var('acc'), Field(Var('state'), 'b'), Field(Var('state'), 'c')])))],
      ('s2', 'a8'), 'loop-carried struct: each iteration snapshots it, updates non-first fields and reads the snapshot')
    K('snap_nested', [Fn('snap_nested', [('n', NEST), ('i', U64), ('k', U8)], Tuple([U64, U64, U8, U8]),
                         Block([Let('cur', Var('n'), mut=True), IfS(Bin('==', Var('k'), Lit(U8, 0)), [AssignField('cur', ['s', 'a'], Lit(U8, 1))]),
                                Let('snap', Var('cur')), AssignField('cur', ['s', 'b'], Var('i')), AssignField('cur', ['s', 'c'], Var('k'))],
                               MkTuple([Field(Field(Var('snap'), 's'), 'b'), Field(Field(Var('cur'), 's'), 'b'),
                                        Field(Field(Var('snap'), 's'), 'c'), Index(Field(Var('snap'), 'arr'), Lit(U64, 1))])))],
      ('n', 'i', 'a8'), 'nested struct snapshot, inner non-first fields of the original overwritten')
    return ks


def fam_wide(pool):
    ks = []

    def K(nm, f, args, note):
        ks.append(Kernel(nm, [f], nm, list(args), 'wide', note))

    K('b256_and', fn1('b256_and', [('x', B256T), ('y', B256T)], B256T, Bin('&', Var('x'), Var('y'))), ('h', 'g'), 'b256 &')
    K('b256_xor_not', fn1('b256_xor_not', [('x', B256T), ('y', B256T)], B256T, Bin('^', Un('!', Var('x')), Var('y'))), ('h', 'g'), '!x ^ y')
    K('b256_eq', fn1('b256_eq', [('x', B256T), ('y', B256T)], BOOL, Bin('==', Var('x'), Var('y'))), ('h', 'g'), 'b256 ==')
    K('b256_shl', fn1('b256_shl', [('x', B256T), ('n', U64)], B256T, Bin('<<', Var('x'), Var('n'))), ('h', 'a64'), 'b256 << n')
    K('u256_mix', fn1('u256_mix', [('x', U256), ('y', U256), ('n', U64)], U256,
                      Bin('+', Bin('>>', Var('x'), Var('n')), Bin('&', Var('y'), Lit(U256, (1 << 128) - 1)))), ('w', 'v', 'a64'), '(x >> n) + (y & mask)')
    K('u256_cmp_chain', fn1('u256_cmp_chain', [('x', U256), ('y', U256)], U64,
                            IfE(Bin('<', Var('x'), Var('y')), Lit(U64, 1), IfE(Bin('==', Var('x'), Var('y')), Lit(U64, 2), Lit(U64, 3)))),
      ('w', 'v'), 'three-way compare')
    K('u256_sub_guard', fn1('u256_sub_guard', [('x', U256), ('y', U256)], U256,
                            IfE(Bin('>=', Var('x'), Var('y')), Bin('-', Var('x'), Var('y')), Bin('-', Var('y'), Var('x')))),
      ('w', 'v'), 'abs diff, never reverts')
    return ks


def fam_bool(pool):
    ks = []

    def K(nm, f, args, note):
        ks.append(Kernel(nm, [f], nm, list(args), 'bool', note))
    for op in ('&&', '||', '==', '!='):
        nm = f'bool_{OPN.get(op, op)}'
        K(nm, fn1(nm, [('p', BOOL), ('q', BOOL)], BOOL, Bin(op, Var('p'), Var('q'))), ('p', 'q'), f'p {op} q')
    K('bool_not', fn1('bool_not', [('p', BOOL)], BOOL, Un('!', Var('p'))), ('p',), '!p')
    K('bool_select', fn1('bool_select', [('p', BOOL), ('q', BOOL), ('x', U64), ('y', U64)], U64,
                         IfE(Bin('&&', Var('p'), Un('!', Var('q'))), Bin('+', Var('x'), Var('y')),
                             IfE(Var('q'), Var('x'), Var('y')))), ('p', 'q', 'a64', 'b64'), 'select')
    K('bool_shortcircuit_div', fn1('bool_shortcircuit_div', [('p', BOOL), ('x', U64), ('y', U64)], BOOL,
                                   Bin('&&', Var('p'), Bin('==', Bin('/', Var('x'), Var('y')), Lit(U64, 3)))),
      ('p', 'a64', 'b64'), 'p && x / y == 3: division only evaluated when p')
    return ks


def fam_pressure(pool, n=56):
    """many simultaneously live values: forces real register spilling in the allocator"""
    ks = []
    stmts = []
    for i in range(n):
        e = Bin('^', Bin('|', Bin('<<', Var('x'), Lit(U64, i % 7)), Lit(U64, i * 7 + 1)), Bin('>>', Var('y'), Lit(U64, i % 61)))
        stmts.append(Let(f'v{i}', e))
    # use them all afterwards, in an order that keeps every one live until the end
    stmts.append(Let('acc', Var('v0'), mut=True))
    for i in range(1, n):
        stmts.append(Assign('acc', Bin('^' if i % 3 else '|', Var('acc'), Bin('&', Var(f'v{i}'), Var(f'v{(i * 5) % n}')))))
    acc = Var('acc')
    f = Fn('pressure', [('x', U64), ('y', U64)], U64, Block(stmts, acc), attrs=['inline(never)'])
    ks.append(Kernel('pressure', [f], 'pressure', ['a64', 'b64'], 'pressure', f'{n} simultaneously live values'))
    # values live across calls to an out-of-line function
    helper = Fn('pressure_helper', [('p', U64), ('q', U64)], U64, Block([], Bin('^', Bin('>>', Var('p'), Lit(U64, 3)), Var('q'))), attrs=['inline(never)'])
    stmts3 = []
    m = 20
    for i in range(m):
        stmts3.append(Let(f'c{i}', Bin('|', Bin('<<', Var('x'), Lit(U64, i % 11)), Lit(U64, i + 1))))
    stmts3.append(Let('acc', Lit(U64, 0), mut=True))
    for i in range(m):
        stmts3.append(Assign('acc', Bin('^', Var('acc'), Call('pressure_helper', [Var(f'c{i}'), Var(f'c{(i * 7 + 3) % m}')]))))
    h = Fn('pressure_calls', [('x', U64)], U64, Block(stmts3, Var('acc')), attrs=['inline(never)'])
    kk = Kernel('pressure_calls', [helper, h], 'pressure_calls', ['a64'], 'pressure', f'{m} values live across {m} out-of-line calls')
    ks.append(kk)
    stmts2 = []
    for i in range(n):
        stmts2.append(Let(f'w{i}', Bin('+', Bin('&', Bin('>>', Var('x'), Lit(U64, i % 50)), Lit(U64, 0xff)), Lit(U64, i))))
    stmts2.append(Let('acc', Lit(U64, 0), mut=True))
    for i in range(n):
        stmts2.append(Assign('acc', Bin('+', Var('acc'), Bin('*', Var(f'w{n - 1 - i}'), Lit(U64, (i % 3) + 1)))))
    acc2 = Var('acc')
    g = Fn('pressure_sum', [('x', U64)], U64, Block(stmts2, acc2), attrs=['inline(never)'])
    ks.append(Kernel('pressure_sum', [g], 'pressure_sum', ['a64'], 'pressure', f'{n} live values consumed in reverse'))
    return ks


# ----------------------------------------------------------------------------- asm kernels (C07)

class AsmKernel(Kernel):
    pass


def asm_kernels_from_rules(rules):
    """rules: [(OP, side, const)] extracted from constant_propagate.rs at run time (see asmrules.py).
    One kernel per rule with the *non-constant* operand symbolic, plus neighbours of the constant."""
    ks = []
    seen = set()
    for op, side, c in rules:
        for cc in sorted({c, c + 1, max(c - 1, 0), 2}):
            key = (op, side, cc)
            if key in seen:
                continue
            seen.add(key)
            lo = op.lower()
            nm = f'asm_{lo}_{side}_{cc}'
            if side == 'left':
                body = f'asm(r1: {cc}u64, r2: x, r3) {{ {lo} r3 r1 r2; r3: u64 }}'
            else:
                body = f'asm(r1: x, r2: {cc}u64, r3) {{ {lo} r3 r1 r2; r3: u64 }}'
            k = AsmKernel(nm, [], nm, ['a64'], 'asm', f'{lo} with {side} constant {cc}')
            k.raw_sway = f'fn {nm}(x: u64) -> u64 {{\n    {body}\n}}\n'
            k.ret = U64
            k.spec_fn = make_asm_spec(op, side, cc)
            ks.append(k)
    return ks


def vm_op_spec(op, l, r):
    """FuelVM semantics of a three-register ALU op on 64-bit z3 terms -> (panic cond, value)"""
    F = z3.BoolVal(False)
    if op == 'ADD':
        return z3.ULT(l + r, l), l + r
    if op == 'SUB':
        return z3.ULT(l, r), l - r
    if op == 'MUL':
        return z3.Not(z3.BVMulNoOverflow(l, r, False)), l * r
    if op == 'DIV':
        return r == 0, z3.UDiv(l, r)
    if op == 'MOD':
        return r == 0, z3.URem(l, r)
    if op == 'AND':
        return F, l & r
    if op == 'OR':
        return F, l | r
    if op == 'XOR':
        return F, l ^ r
    if op == 'SLL':
        return F, l << r
    if op == 'SRL':
        return F, z3.LShR(l, r)
    if op == 'EQ':
        return F, z3.If(l == r, z3.BitVecVal(1, 64), z3.BitVecVal(0, 64))
    if op == 'GT':
        return F, z3.If(z3.UGT(l, r), z3.BitVecVal(1, 64), z3.BitVecVal(0, 64))
    if op == 'LT':
        return F, z3.If(z3.ULT(l, r), z3.BitVecVal(1, 64), z3.BitVecVal(0, 64))
    if op == 'EXP':
        one, zero = z3.BitVecVal(1, 64), z3.BitVecVal(0, 64)
        if z3.is_bv_value(r):
            c = r.as_long()
            if c > 64:
                return z3.UGE(l, 2), l
            acc = z3.BitVecVal(1, 64)
            ovf = F
            for i in range(c):
                if i > 0:
                    ovf = z3.Or(ovf, z3.Not(z3.BVMulNoOverflow(acc, l, False)))
                acc = acc * l
            return ovf, acc
        if z3.is_bv_value(l):
            c = l.as_long()
            if c == 0:
                return F, z3.If(r == 0, one, zero)
            if c == 1:
                return F, one
            if c == 2:
                return z3.UGE(r, 64), one << r
        return None
    if op == 'MROO':
        if z3.is_bv_value(r) and r.as_long() == 1:
            return F, l
        return None
    return None


def make_asm_spec(op, side, c):
    def spec(env):
        x = env['a64']
        C = z3.BitVecVal(c, 64)
        l, r = (C, x) if side == 'left' else (x, C)
        res = vm_op_spec(op, l, r)
        if res is None:
            return None
        return res[0], res[1], U64
    return spec


def fam_asm_misc():
    """hand-written asm kernels for the remaining asm-level optimizations: MOVE/MOVI chains,
    dead definitions, branches on known values."""
    ks = []

    def K(nm, body, spec, note, args=('a64', 'b64'), params='x: u64, y: u64'):
        k = AsmKernel(nm, [], nm, list(args), 'asm', note)
        k.raw_sway = f'fn {nm}({params}) -> u64 {{\n{body}\n}}\n'
        k.ret = U64
        k.spec_fn = spec
        ks.append(k)

    F = z3.BoolVal(False)
    K('asm_move_chain', '    asm(a: x, b, c, d) { move b a; move c b; move d c; add d d c; d: u64 }',
      lambda env: (z3.ULT(env['a64'] + env['a64'], env['a64']), env['a64'] + env['a64'], U64), 'move chain then add',
      args=('a64',), params='x: u64')
    K('asm_movi_fold', '    asm(a, b, c: x, d) { movi a i5; movi b i7; mul a a b; add d c a; d: u64 }',
      lambda env: (z3.ULT(env['a64'] + 35, env['a64']), env['a64'] + 35, U64), 'movi constants folded then added to x',
      args=('a64',), params='x: u64')
    K('asm_dead_def', '    asm(a: x, b: y, c, d) { xor c a b; movi c i9; sub d a c; d: u64 }',
      lambda env: (z3.ULT(env['a64'], z3.BitVecVal(9, 64)), env['a64'] - 9, U64),
      'dead (non-trapping) definition; result x - 9')
    K('asm_overwrite_const', '    asm(a: x, c) { movi c i3; add c c a; movi c i4; add c c a; c: u64 }',
      lambda env: (z3.Or(z3.ULT(env['a64'] + 3, env['a64']), z3.ULT(env['a64'] + 4, env['a64'])), env['a64'] + 4, U64),
      'register redefined with another constant', args=('a64',), params='x: u64')
    K('asm_not_and', '    asm(a: x, b: y, c) { not c a; and c c b; xor c c a; c: u64 }',
      lambda env: (F, ((~env['a64']) & env['b64']) ^ env['a64'], U64), 'bitwise chain')
    K('asm_shift_const', '    asm(a: x, c) { slli c a i63; srli c c i62; sll c c one; c: u64 }',
      lambda env: (F, z3.LShR(env['a64'] << 63, 62) << 1, U64), 'shift immediates', args=('a64',), params='x: u64')
    K('asm_exp_zero_base', '    asm(a: 0u64, b: x, c) { exp c a b; c: u64 }',
      lambda env: (F, z3.If(env['a64'] == 0, z3.BitVecVal(1, 64), z3.BitVecVal(0, 64)), U64), '0 ** x', args=('a64',), params='x: u64')
    K('asm_exp_one_base', '    asm(a: 1u64, b: x, c) { exp c a b; c: u64 }',
      lambda env: (F, z3.BitVecVal(1, 64), U64), '1 ** x', args=('a64',), params='x: u64')
    K('asm_exp_zero_exp', '    asm(a: x, b: 0u64, c) { exp c a b; c: u64 }',
      lambda env: (F, z3.BitVecVal(1, 64), U64), 'x ** 0', args=('a64',), params='x: u64')
    K('asm_exp_one_exp', '    asm(a: x, b: 1u64, c) { exp c a b; c: u64 }',
      lambda env: (F, env['a64'], U64), 'x ** 1', args=('a64',), params='x: u64')
    K('asm_mul_consts_overflow', '    asm(a: 0x8000000000000000u64, b: 4u64, c, d: x) { mul c a b; add c c d; c: u64 }',
      lambda env: (z3.BoolVal(True), env['a64'], U64), 'product of two known constants overflows: the VM panics',
      args=('a64',), params='x: u64')
    K('asm_mul_consts', '    asm(a: 0x100000000u64, b: 0xffffffffu64, c, d: x) { mul c a b; add c c d; c: u64 }',
      lambda env: (z3.ULT(env['a64'] + 0xffffffff00000000, env['a64']), env['a64'] + 0xffffffff00000000, U64),
      'product of two known constants just below 2^64', args=('a64',), params='x: u64')
    K('asm_mlog_consts', '    asm(a: x, b: 2u64, c) { mlog c a b; c: u64 }', None, 'log2 x (spec: builds only)', args=('a64',), params='x: u64')
    K('asm_mroo_consts', '    asm(a: x, b: 2u64, c) { mroo c a b; c: u64 }', None, 'sqrt x (spec: builds only)', args=('a64',), params='x: u64')
    return ks


def fam_intrinsics():
    """kernels around IR instructions that ordinary expressions never produce (equivalence checks
    only; no reference semantics): message output."""
    ks = []

    def K(nm, body, note, args=('a64', 'b64'), params='x: u64, y: u64'):
        k = AsmKernel(nm, [], nm, list(args), 'intr', note)
        k.raw_sway = f'fn {nm}({params}) -> u64 {{\n{body}\n}}\n'
        k.ret = U64
        k.spec_fn = None
        ks.append(k)

    R = '0x00000000000000000000000000000000000000000000000000000000000000a1'
    K('intr_smo_tuple', f'    __smo({R}, (x, 7u64), y);\n    x', 'message output: data (x, 7), y coins (balance 1)')
    K('intr_smo_u8', f'    __smo({R}, 5u8, y);\n    x', 'message output: one-byte payload, y coins')
    K('intr_smo_size_coins', f'    __smo({R}, (x, y, 9u64), 1);\n    __smo({R}, x, 0);\n    y',
      'two message outputs: 24-byte payload with 1 coin, then 8-byte payload with 0 coins')
    return ks


# ----------------------------------------------------------------------------- assembling packages

def chunk(xs, n):
    return [xs[i:i + n] for i in range(0, len(xs), n)]


def build_corpus(tier='quick', seed=0, asm_rules=None, families=None):
    rng = random.Random(seed * 7919 + 17)
    pk = []
    int_ks = fam_binops('int', [U8, U16, U32, U64]) + fam_control('int') + fam_calls('int') + fam_pressure('int')
    const_ks = fam_const_operand('int', [U8, U16, U32, U64], rng, per_type=6 if tier == 'quick' else 40)
    rand_ks = fam_random_exprs('int', rng, 24 if tier == 'quick' else 160, depth=3)
    rand_ks += fam_random_stmts('int', rng, 16 if tier == 'quick' else 120)
    cf_ks = fam_constfold(rng, 60 if tier == 'quick' else 600)
    wide_ks = fam_binops('wide', [U256]) + fam_wide('wide') + fam_const_operand('wide', [U256], rng, per_type=6 if tier == 'quick' else 30)
    bool_ks = fam_bool('bool') + fam_random_exprs('bool', rng, 8 if tier == 'quick' else 40, depth=3)
    agg_ks = fam_aggregates('agg')
    agg_groups = {}
    for k in agg_ks:
        pool = next(pn for pn in ('aggA', 'aggB', 'aggC') if all(a in dict(POOLS[pn]) for a in k.args))
        agg_groups.setdefault(pool, []).append(k)
    per = 60
    for i, c in enumerate(chunk(int_ks, per)):
        pk.append(Package(f'kint{i}', 'int', c))
    for i, c in enumerate(chunk(const_ks, per)):
        pk.append(Package(f'kconst{i}', 'int', c))
    for i, c in enumerate(chunk(rand_ks, per)):
        pk.append(Package(f'krand{i}', 'int', c))
    for i, c in enumerate(chunk(cf_ks, per)):
        pk.append(Package(f'kcf{i}', 'int', c))
    for i, c in enumerate(chunk(wide_ks, per)):
        pk.append(Package(f'kwide{i}', 'wide', c))
    for i, c in enumerate(chunk(bool_ks, per)):
        pk.append(Package(f'kbool{i}', 'bool', c))
    for pool, ks_ in sorted(agg_groups.items()):
        p = Package(f'k{pool.lower()}', pool, ks_)
        p.extra_types = [E2]
        pk.append(p)
    asm_ks = fam_asm_misc() + fam_intrinsics() + (asm_kernels_from_rules(asm_rules) if asm_rules else [])
    for i, c in enumerate(chunk(asm_ks, per)):
        pk.append(Package(f'kasm{i}', 'int', c))
    if families:
        out = []
        for p in pk:
            ks = [k for k in p.kernels if k.family in families]
            if ks:
                q = Package(p.name, p.pool, ks)
                q.extra_types = getattr(p, 'extra_types', [])
                out.append(q)
        pk = out
    return pk


def kernel_spec(pkg, k, env):
    """-> dict(revert=z3 Bool, alts=[(guard, [bytes])], logs_extra=[...]) or None if no spec"""
    if k.spec_fn is not None or isinstance(k, AsmKernel):
        if k.spec_fn is None:
            return None
        r = k.spec_fn(env)
        if r is None:
            return None
        rev, val, ty = r
        return {'revert': z3.simplify(rev), 'alts': abi_encode(val, ty), 'ret_ty': ty, 'fallthrough': []}
    fns = {f.name: f for kk in pkg.kernels for f in kk.fns}
    spec = Spec(fns)
    f = fns[k.entry]
    args = [env[a] for a in k.args]
    val = call_fn(f, args, spec, z3.BoolVal(True))
    ret_ty = dict(f.generics)[f.ret] if isinstance(f.ret, str) else f.ret
    return {'revert': spec.revert_cond(), 'alts': abi_encode(val, ret_ty), 'ret_ty': ret_ty,
            'fallthrough': getattr(spec, 'fallthrough', []), 'unroll_residue': getattr(spec, 'unroll_residue', []),
            'logs': spec.logs}
