"""More typed SV cases: configurables (C13), match programs (C14), std numerics/collections (C27)."""
import random
import re
import z3

from .lang import *
from .typed import Case, decls_for, _G
from .common import build_package


# ----------------------------------------------------------------------------------- constants

def const_of(ty, rng):
    """-> (sway literal text, spec value)"""
    if isinstance(ty, UInt):
        v = rng.choice([0, 1, 2, ty.max, ty.max - 1, rng.randrange(ty.max + 1)])
        return lit_sway(ty, v), z3.BitVecVal(v, ty.w)
    if isinstance(ty, Bool):
        v = rng.choice([0, 1])
        return lit_sway(ty, v), z3.BoolVal(bool(v))
    if isinstance(ty, B256):
        v = rng.randrange(1 << 256)
        return lit_sway(ty, v), z3.BitVecVal(v, 256)
    if isinstance(ty, StrArr):
        s = ''.join(rng.choice('abcxyz019') for _ in range(ty.n))
        return f'__to_str_array("{s}")', [z3.BitVecVal(ord(c), 8) for c in s]
    if isinstance(ty, Tuple):
        parts = [const_of(t, rng) for t in ty.ts]
        return '(' + ', '.join(p[0] for p in parts) + (',)' if len(parts) == 1 else ')'), [p[1] for p in parts]
    if isinstance(ty, Struct):
        parts = [const_of(t, rng) for _, t in ty.fields]
        return ty.name + ' { ' + ', '.join(f'{f}: {p[0]}' for (f, _), p in zip(ty.fields, parts)) + ' }', [p[1] for p in parts]
    if isinstance(ty, Array):
        parts = [const_of(ty.t, rng) for _ in range(ty.n)]
        return '[' + ', '.join(p[0] for p in parts) + ']', [p[1] for p in parts]
    if isinstance(ty, Enum):
        i = rng.randrange(len(ty.variants))
        vn, vt = ty.variants[i]
        payloads = [default_value(t) for _, t in ty.variants]
        if isinstance(vt, Unit):
            txt = f'{ty.name}::{vn}'
        else:
            t, v = const_of(vt, rng)
            payloads[i] = v
            txt = f'{ty.name}::{vn}({t})'
        return txt, ('enum', z3.BitVecVal(i, 64), payloads)
    raise TypeError(ty)


# ----------------------------------------------------------------------------------- C13

def configurable_sets(tier, seed):
    S = Struct('CfgS', [('a', U8), ('b', U64), ('c', BOOL)])
    E = Enum('CfgE', [('P', U64), ('Q', U64)])
    EU = Enum('CfgU', [('X', UNIT), ('Y', UNIT)])
    sets = [
        [('A', U8), ('B', U64), ('C', BOOL)],
        [('A', U16), ('B', B256T), ('C', Tuple([U8, U64])), ('D', U32)],
        [('A', S), ('B', Array(U16, 2)), ('C', E), ('D', U8), ('E', EU)],
        [('A', StrArr(4)), ('B', U256), ('C', BOOL), ('D', Array(BOOL, 2))],
    ]
    if tier == 'thorough':
        rng = random.Random(seed * 13 + 1)
        pool = [U8, U16, U32, U64, BOOL, B256T, U256, S, E, EU, Tuple([BOOL, U8]), Array(U8, 3), StrArr(2), StrArr(9)]
        for _ in range(8):
            k = rng.randint(2, 5)
            sets.append([(chr(65 + i), rng.choice(pool)) for i in range(k)])
    return sets


def configurable_cases(tier, seed):
    cases = []
    rng = random.Random(seed * 17 + 2)
    for si, cfg in enumerate(configurable_sets(tier, seed)):
        consts = [const_of(t, rng) for _, t in cfg]
        decl = ''
        seen = []
        for _, t in cfg:
            for d in user_types(t, []):
                if d not in seen:
                    seen.append(d)
                    decl += d.decl() + '\n'
        src = 'script;\n\n' + decl + 'configurable {\n' + ''.join(f'    {n}: {t.sway()} = {c[0]},\n' for (n, t), c in zip(cfg, consts)) + '}\n\n'
        head = src
        plain = head + 'fn main(i: u64) {\n'
        for k, (n, t) in enumerate(cfg):
            plain += f'    {"if" if k == 0 else "} else if"} i == {k} {{\n        log({n});\n'
        plain += '    }\n}\n'
        # same program, but main also uses wide local constants and a string literal, which put more
        # (non-configurable) entries and pointer words into the data section
        rich = head + 'fn main(i: u64) {\n'
        rich += f'    let wide1: b256 = {lit_sway(B256T, rng.randrange(1 << 256))};\n    let wide2: u256 = {lit_sway(U256, rng.randrange(1 << 255))};\n'
        rich += '    let text: str[11] = __to_str_array("hello world");\n    let big: u64 = 0x123456789abcdef0;\n'
        for k, (n, t) in enumerate(cfg):
            rich += f'    {"if" if k == 0 else "} else if"} i == {k} {{\n        log({n});\n'
        rich += '    } else if i == 100 {\n        log(wide1);\n    } else if i == 101 {\n        log(wide2);\n    } else if i == 102 {\n        log(text);\n    } else if i == 103 {\n        log(big);\n    }\n}\n'
        for variant, src in (('plain', plain), ('rich', rich)):
          for j, (nj, tj) in enumerate(cfg):
            for i in sorted({j, (j + 1) % len(cfg)}):
                if variant == 'rich' and tier == 'quick' and i != j and j % 2 == 1:
                    continue
                c = Case(f'cfg{si}{"" if variant == "plain" else "r"}_patch{nj}_read{cfg[i][0]}', src, note=f'[{variant}] configurable {nj}: {tj.sway()} patched with symbolic bytes at the ABI offset; main({i}) logs {cfg[i][0]}',
                         tags=['configurable'])
                c.needs_built = True
                c.set_index = si

                def make_inputs(built, j=j, i=i, cfg=cfg):
                    abi = built.abi
                    off = next(x['offset'] for x in abi['configurables'] if x['name'] == cfg[j][0])
                    n = abi_size_fixed(cfg[j][1])
                    syms = [z3.BitVec(f'cfg_{k}', 8) for k in range(n)]
                    v, valid, _ = abi_decode(syms, cfg[j][1])
                    data = [(i >> (8 * (7 - b))) & 0xff for b in range(8)]
                    return data, {'syms': syms, 'value': v, 'valid': valid}, {off + k: s for k, s in enumerate(syms)}

                def spec(env, built, j=j, i=i, cfg=cfg, consts=consts):
                    if i == j:
                        alts = [(z3.BoolVal(True), env['syms'])]
                    else:
                        alts = abi_encode(consts[i][1], cfg[i][1])
                    return {'revert': z3.Not(env['valid']), 'ret': None, 'logs': [alts], 'assume': z3.BoolVal(True)}
                c.make_inputs, c.spec = make_inputs, spec
                c.sample = {'configurables': [(n, t.sway()) for n, t in cfg], 'patched': nj, 'read': cfg[i][0]}
                # one package per set: same name for all cases of the set so the build is shared
                c.pkg_name = (lambda si=si, variant=variant: f'ccfg{si}{variant}')
                cases.append(c)
    return cases


# ----------------------------------------------------------------------------------- C14

ME3 = Enum('ME3', [('A', UNIT), ('B', UNIT), ('C', UNIT)])
MEP = Enum('MEP', [('N', BOOL), ('V', U8), ('W', BOOL)])
MS = Struct('MS', [('f', BOOL), ('g', U8)])


def rand_pat(rng, ty, depth, binds, in_or=False):
    """random pattern for ty; `binds`: list of (name, ty) introduced (names are unique per arm)"""
    k = rng.random()
    if k < 0.2:
        return PWild()
    if k < 0.3 and isinstance(ty, (UInt, Bool)) and not in_or:
        nm = f'v{len(binds)}'
        binds.append((nm, ty))
        return PBind(nm)
    if k < 0.42 and depth > 0 and not in_or and not isinstance(ty, Bool):
        # or-pattern over arbitrary alternatives (may contain wildcards); optionally every alternative binds one variable
        nalt = rng.randint(2, 3)
        if rng.random() < 0.5:
            leaf_tys = [t for t in leaf_types(ty) if isinstance(t, (UInt, Bool))]
            if leaf_tys:
                bt = rng.choice(leaf_tys)
                nm = f'v{len(binds)}'
                alts = []
                for _ in range(nalt):
                    a = pat_with_binding(rng, ty, nm, bt, depth)
                    if a is None:
                        break
                    alts.append(a)
                if len(alts) == nalt:
                    binds.append((nm, bt))
                    return POr(alts)
        return POr([rand_pat(rng, ty, depth - 1, [], in_or=True) for _ in range(nalt)])
    if isinstance(ty, Bool):
        return PLit(BOOL, rng.choice([0, 1]))
    if isinstance(ty, UInt):
        return PLit(ty, rng.choice([0, 1, 2, 3, 255]))
    if isinstance(ty, Enum):
        vn, vt = rng.choice(ty.variants)
        if isinstance(vt, Unit):
            return PEnum(ty, vn)
        return PEnum(ty, vn, rand_pat(rng, vt, depth - 1, binds, in_or) if depth > 0 else PWild())
    if isinstance(ty, Tuple):
        return PTuple([rand_pat(rng, t, depth - 1, binds, in_or) for t in ty.ts])
    if isinstance(ty, Struct):
        if rng.random() < 0.35:
            fs = [(f, t) for f, t in ty.fields if rng.random() < 0.5]
            return PStructRest(ty, [(f, rand_pat(rng, t, depth - 1, binds, in_or)) for f, t in fs])
        return PStruct(ty, [rand_pat(rng, t, depth - 1, binds, in_or) for _, t in ty.fields])
    return PWild()


def leaf_types(ty):
    if isinstance(ty, (UInt, Bool)):
        return [ty]
    if isinstance(ty, Tuple):
        return [x for t in ty.ts for x in leaf_types(t)]
    if isinstance(ty, Struct):
        return [x for _, t in ty.fields for x in leaf_types(t)]
    if isinstance(ty, Enum):
        return [x for _, t in ty.variants for x in leaf_types(t)]
    return []


def pat_with_binding(rng, ty, name, bty, depth):
    """a pattern for ty that binds `name` (of type bty) exactly once; other positions are literals/wildcards"""
    if ty == bty and (depth <= 0 or rng.random() < 0.5 or isinstance(ty, (UInt, Bool))):
        return PBind(name)
    if isinstance(ty, Tuple):
        idx = [i for i, t in enumerate(ty.ts) if bty in leaf_types(t)]
        if not idx:
            return None
        j = rng.choice(idx)
        return PTuple([pat_with_binding(rng, t, name, bty, depth - 1) if i == j else rand_pat(rng, t, 0, [], in_or=True) for i, t in enumerate(ty.ts)])
    if isinstance(ty, Struct):
        idx = [i for i, (_, t) in enumerate(ty.fields) if bty in leaf_types(t)]
        if not idx:
            return None
        j = rng.choice(idx)
        return PStruct(ty, [pat_with_binding(rng, t, name, bty, depth - 1) if i == j else rand_pat(rng, t, 0, [], in_or=True) for i, (_, t) in enumerate(ty.fields)])
    if isinstance(ty, Enum):
        vs = [(vn, vt) for vn, vt in ty.variants if bty in leaf_types(vt)]
        if not vs:
            return None
        vn, vt = rng.choice(vs)
        return PEnum(ty, vn, pat_with_binding(rng, vt, name, bty, depth - 1))
    return None


def arm_result(k, binds):
    """distinct constant per arm plus every bound variable, so that wrong bindings are observable"""
    e = Lit(U64, 1000 * (k + 1))
    for n, t in binds:
        term = IfE(Var(n), Lit(U64, 1), Lit(U64, 0)) if isinstance(t, Bool) else Cast(Var(n), U64)
        e = Bin('+', e, term)
    return e


def has_rest(p):
    if isinstance(p, PStructRest):
        return True
    if isinstance(p, (POr, PTuple, PStruct)):
        return any(has_rest(x) for x in p.ps)
    if isinstance(p, PEnum) and p.p is not None:
        return has_rest(p.p)
    return False


def has_bind_in_or(p):
    if isinstance(p, POr):
        return any(has_any_bind(x) for x in p.ps)
    if isinstance(p, (PTuple, PStruct)):
        return any(has_bind_in_or(x) for x in p.ps)
    if isinstance(p, PEnum) and p.p is not None:
        return has_bind_in_or(p.p)
    return False


def has_any_bind(p):
    if isinstance(p, PBind):
        return True
    if isinstance(p, (POr, PTuple, PStruct)):
        return any(has_any_bind(x) for x in p.ps)
    if isinstance(p, PEnum) and p.p is not None:
        return has_any_bind(p.p)
    return False


def match_programs(tier, seed):
    rng = random.Random(seed * 23 + 7)
    scrut = [BOOL, U8, ME3, MEP, Tuple([BOOL, ME3]), Tuple([U8, BOOL]), MS, Tuple([MEP, BOOL])]
    n = 40 if tier == 'quick' else 240
    progs = []
    for i in range(n):
        ty = scrut[i % len(scrut)]
        arms = []
        for _ in range(rng.randint(1, 5)):
            binds = []
            p = rand_pat(rng, ty, 2, binds)
            arms.append((p, binds))
        if rng.random() < 0.55:
            arms.append((PWild(), []))
        progs.append((f'm{i}', ty, arms))
    # hand-written corner cases
    progs.append(('m_bool_full', BOOL, [(p_, []) for p_ in [PLit(BOOL, 1), PLit(BOOL, 0)]]))
    progs.append(('m_bool_miss', BOOL, [(p_, []) for p_ in [PLit(BOOL, 1)]]))
    progs.append(('m_enum_full', ME3, [(p_, []) for p_ in [PEnum(ME3, 'A'), POr([PEnum(ME3, 'B'), PEnum(ME3, 'C')])]]))
    progs.append(('m_enum_miss', ME3, [(p_, []) for p_ in [PEnum(ME3, 'A'), PEnum(ME3, 'C')]]))
    progs.append(('m_tuple_full', Tuple([BOOL, ME3]), [(p_, []) for p_ in [PTuple([PLit(BOOL, 1), PWild()]), PTuple([PLit(BOOL, 0), PEnum(ME3, 'A')]),
                                                       PTuple([PWild(), POr([PEnum(ME3, 'B'), PEnum(ME3, 'C')])])]]))
    progs.append(('m_tuple_miss', Tuple([BOOL, ME3]), [(p_, []) for p_ in [PTuple([PLit(BOOL, 1), PWild()]), PTuple([PLit(BOOL, 0), PEnum(ME3, 'A')]),
                                                       PTuple([PLit(BOOL, 1), POr([PEnum(ME3, 'B'), PEnum(ME3, 'C')])])]]))
    progs.append(('m_payload_full', MEP, [(p_, []) for p_ in [PEnum(MEP, 'N', PWild()), PEnum(MEP, 'V', PLit(U8, 0)), PEnum(MEP, 'V', PBind('k')), PEnum(MEP, 'W', PLit(BOOL, 1)), PEnum(MEP, 'W', PLit(BOOL, 0))]]))
    progs.append(('m_payload_miss', MEP, [(p_, []) for p_ in [PEnum(MEP, 'N', PLit(BOOL, 1)), PEnum(MEP, 'V', PLit(U8, 0)), PEnum(MEP, 'W', PWild())]]))
    # or-patterns with an irrefutable alternative, overlapping binding alternatives, rest patterns
    progs.append(('m_or_wild_u8', U8, [(PLit(U8, 1), []), (POr([PWild(), PLit(U8, 5)]), [])]))
    progs.append(('m_or_wild_tuple', Tuple([U8, BOOL]), [(POr([PTuple([PWild(), PWild()]), PTuple([PLit(U8, 1), PLit(BOOL, 1)])]), []), (PWild(), [])]))
    progs.append(('m_or_bind_overlap', Tuple([U8, U8]), [(POr([PTuple([PBind('x'), PLit(U8, 1)]), PTuple([PLit(U8, 1), PBind('x')]), PTuple([PBind('x'), PWild()])]), [('x', U8)])]))
    progs.append(('m_rest_full', MS, [(PStructRest(MS, [('f', PLit(BOOL, 0))]), []), (PStruct(MS, [PWild(), PWild()]), [])]))
    progs.append(('m_rest_bind', MS, [(PStructRest(MS, [('g', PLit(U8, 0))]), []), (PStructRest(MS, [('g', PBind('v'))]), [('v', U8)])]))
    return progs


def match_cases(tier, seed):
    """-> (SV cases for accepted programs, pre_results for the compile-time half)"""
    from .common import build_package
    progs = match_programs(tier, seed)
    cases, pre = [], []
    info = []
    for name, ty, arms in progs:
        m = Match(Var('x'), [(p, arm_result(k, b)) for k, (p, b) in enumerate(arms)])
        src = ('script;\n\n' + decls_for(ty) + f'fn main(x: {ty.sway()}) -> u64 {{\n    {expr_sway(m, 1)}\n}}\n')
        # exhaustiveness by solver over the pattern predicates
        bs = [z3.BitVec(f'x_{i}', 8) for i in range(abi_size_fixed(ty))]
        v, valid, _ = abi_decode(bs, ty)
        s = z3.Solver()
        s.add(valid)
        for p, _b in arms:
            s.add(z3.Not(pattern_matches(p, v, ty, {})))
        r = s.check()
        exhaustive = r == z3.unsat
        witness = None
        if r == z3.sat:
            witness = bytes(s.model().eval(b, model_completion=True).as_long() for b in bs).hex()
        info.append((name, ty, arms, src, exhaustive, witness))
    # compile all (debug only for the compile-time half)
    from concurrent.futures import ThreadPoolExecutor
    from .common import NCPU

    def comp(it):
        name, ty, arms, src, exhaustive, witness = it
        return build_package('c' + name, src, 'debug')
    with ThreadPoolExecutor(max_workers=NCPU) as ex:
        builts = list(ex.map(comp, info))
    for (name, ty, arms, src, exhaustive, witness), b in zip(info, builts):
        res = {'case': 'compile_' + name, 'status': 'held', 'queries': 1, 'sat': 0 if exhaustive else 1, 'unsat': 1 if exhaustive else 0, 'unknown': 0,
               'solver_s': 0.0, 'paths': {}, 'violations': [], 'unexplored': [], 'engine_errors': [], 'nontrivial': True, 'replayed': 0, 'steps': 0,
               'tags': ['match-compile'] + (['struct-rest-pattern'] if any(has_rest(p) for p, _b in arms) else [])}
        nonexh_msg = re.search(r'[Nn]on-exhaustive|not exhaustive', b.log) is not None
        if exhaustive and not b.ok:
            if nonexh_msg:
                res['violations'].append({'what': 'exhaustive match rejected', 'patterns': [pat_sway(p) for p, _b in arms], 'type': ty.sway(), 'log': b.log[-600:]})
            else:
                res['unexplored'].append('build failed for another reason: ' + b.log[-300:])
        if (not exhaustive) and b.ok:
            res['violations'].append({'what': 'non-exhaustive match accepted', 'patterns': [pat_sway(p) for p, _b in arms], 'type': ty.sway(), 'uncovered_value_bytes': witness})
        if (not exhaustive) and (not b.ok) and not nonexh_msg:
            res['unexplored'].append('rejected, but not with a non-exhaustiveness error: ' + b.log[-300:])
        if res['violations']:
            res['status'] = 'violation'
        elif res['unexplored']:
            res['status'] = 'partial'
        pre.append(res)
        if exhaustive and b.ok:
            c = Case(name, src, note=f'match over {ty.sway()} with arms ' + ' ; '.join(pat_sway(p) for p, _b in arms), tags=['match-run'])
            c.pkg_name = (lambda name=name: 'c' + name)

            def make_inputs(ty=ty):
                bs = [z3.BitVec(f'x_{i}', 8) for i in range(abi_size_fixed(ty))]
                v, valid, _ = abi_decode(bs, ty)
                return bs, {'x': v, 'valid': valid}, {}

            def spec(env, ty=ty, arms=arms):
                sp = Spec({})
                fr = Frame({'x': env['x']}, {'x': ty})
                m = Match(Var('x'), [(p, arm_result(k, b)) for k, (p, b) in enumerate(arms)])
                val = ev(m, fr, sp, z3.BoolVal(True))
                return {'revert': z3.Not(env['valid']), 'ret': abi_encode(val, U64), 'logs': None, 'assume': z3.BoolVal(True)}
            c.make_inputs, c.spec = make_inputs, spec
            c.sample = {'type': ty.sway(), 'arms': [pat_sway(p) for p, _b in arms]}
            cases.append(c)
    return cases, pre


# ----------------------------------------------------------------------------------- C27

def std_case(name, params, ret_ty, body, spec_fn, note='', uses='', decl=''):
    ps = ', '.join(f'{n}: {t.sway()}' for n, t in params)
    src = f'script;\n\n{uses}\n{decl}fn main({ps}) -> {ret_ty.sway()} {{\n{body}\n}}\n'
    c = Case('std_' + name, src, note=note or body.strip(), tags=['std'])

    def make_inputs(params=params):
        data, env, valid = [], {}, []
        for n_, t in params:
            bs = [z3.BitVec(f'{n_}_{i}', 8) for i in range(abi_size_fixed(t))]
            v, ok, _ = abi_decode(bs, t)
            env[n_] = v
            valid.append(ok)
            data += bs
        env['__valid'] = z3.And(*valid) if valid else z3.BoolVal(True)
        return data, env, {}

    def spec(env, spec_fn=spec_fn, ret_ty=ret_ty):
        r = spec_fn(env)
        rev, val = r[0], r[1]
        out = {'revert': z3.Or(z3.Not(env['__valid']), rev), 'ret': abi_encode(val, ret_ty), 'logs': None, 'assume': z3.BoolVal(True)}
        if len(r) > 2:
            out['axioms'] = r[2]
        return out
    c.make_inputs, c.spec = make_inputs, spec
    c.sample = {'params': [t.sway() for _, t in params], 'returns': ret_ty.sway()}
    return c


def std_cases(tier, seed):
    cs = []
    F = z3.BoolVal(False)
    for ty in (U8, U16, U32, U64):
        w = ty.w
        tn = ty.sway()
        cs.append(std_case(f'wrapping_add_{tn}', [('a', ty), ('b', ty)], ty, '    a.wrapping_add(b)', lambda e: (F, e['a'] + e['b'])))
        cs.append(std_case(f'wrapping_sub_{tn}', [('a', ty), ('b', ty)], ty, '    a.wrapping_sub(b)', lambda e: (F, e['a'] - e['b'])))
        cs.append(std_case(f'wrapping_mul_{tn}', [('a', ty), ('b', ty)], ty, '    a.wrapping_mul(b)', lambda e: (F, e['a'] * e['b'])))
        # flags are restored after a wrapping op: a following checked op must still revert
        cs.append(std_case(f'wrapping_then_checked_{tn}', [('a', ty), ('b', ty)], ty, '    let w = a.wrapping_add(b);\n    w + a',
                           lambda e, w=w: (z3.ULT(z3.ZeroExt(1, e['a'] + e['b']) + z3.ZeroExt(1, e['a']), z3.ZeroExt(1, e['a'])) if False else
                                           z3.Extract(w, w, z3.ZeroExt(1, e['a'] + e['b']) + z3.ZeroExt(1, e['a'])) == 1, (e['a'] + e['b']) + e['a']),
                           note='wrapping_add then a checked add'))
        for k in (2, 3):
            def pow_spec(e, k=k, w=w):
                x = z3.ZeroExt(64 - w, e['a']) if w < 64 else e['a']
                acc = z3.BitVecVal(1, 64)
                ovf = F
                for i in range(k):
                    if i > 0:
                        ovf = z3.Or(ovf, z3.Not(z3.BVMulNoOverflow(acc, x, False)))
                    acc = acc * x
                if w < 64:
                    ovf = z3.Or(ovf, z3.UGT(acc, z3.BitVecVal((1 << w) - 1, 64)))
                return ovf, z3.Extract(w - 1, 0, acc)
            cs.append(std_case(f'pow{k}_{tn}', [('a', ty)], ty, f'    a.pow({k})', pow_spec, uses='use std::math::*;'))

        def pow2n_spec(e, w=w):
            n = e['n']
            return z3.UGE(n, w), z3.BitVecVal(1, w) << (z3.ZeroExt(w - 32, n) if w > 32 else z3.Extract(w - 1, 0, n))
        cs.append(std_case(f'pow_2_n_{tn}', [('n', U32)], ty, f'    {lit_sway(ty, 2)}.pow(n)', pow2n_spec, uses='use std::math::*;'))
        cs.append(std_case(f'pow_0_n_{tn}', [('n', U32)], ty, f'    {lit_sway(ty, 0)}.pow(n)',
                           lambda e, w=w: (F, z3.If(e['n'] == 0, z3.BitVecVal(1, w), z3.BitVecVal(0, w))), uses='use std::math::*;'))

        def log2_spec(e, w=w):
            x = e['a']
            res = z3.BitVecVal(0, w)
            for i in range(1, w):
                res = z3.If(z3.UGE(x, z3.BitVecVal(1 << i, w)), z3.BitVecVal(i, w), res)
            return x == 0, res
        cs.append(std_case(f'log2_{tn}', [('a', ty)], ty, '    a.log2()', log2_spec, uses='use std::math::*;'))

        def sqrt_spec(e, w=w):
            from .symvm import UF_ROOT2
            x64 = z3.ZeroExt(64 - w, e['a']) if w < 64 else e['a']
            r = UF_ROOT2(x64)
            r128 = z3.ZeroExt(64, r)
            ax = [z3.ULE(r128 * r128, z3.ZeroExt(64, x64)), z3.ULT(z3.ZeroExt(64, x64), (r128 + 1) * (r128 + 1)), z3.ULT(r, z3.BitVecVal(1 << 32, 64))]
            return F, z3.Extract(w - 1, 0, r), ax
        cs.append(std_case(f'sqrt_{tn}', [('a', ty)], ty, '    a.sqrt()', sqrt_spec, uses='use std::math::*;'))
    # conversions
    cs.append(std_case('try_from_u64_u8', [('a', U64)], U8, '    match a.try_as_u8() { Some(v) => v, None => 77u8, }',
                       lambda e: (F, z3.If(z3.ULE(e['a'], 255), z3.Extract(7, 0, e['a']), z3.BitVecVal(77, 8)))))
    cs.append(std_case('try_from_u64_u32', [('a', U64)], U32, '    match a.try_as_u32() { Some(v) => v, None => 77u32, }',
                       lambda e: (F, z3.If(z3.ULE(e['a'], (1 << 32) - 1), z3.Extract(31, 0, e['a']), z3.BitVecVal(77, 32)))))
    cs.append(std_case('as_widen', [('a', U8), ('b', U16), ('c', U32)], U64, '    a.as_u64() + b.as_u64() + c.as_u64()',
                       lambda e: (F, z3.ZeroExt(56, e['a']) + z3.ZeroExt(48, e['b']) + z3.ZeroExt(32, e['c']))))
    cs.append(std_case('u256_from_parts', [('a', U64), ('b', U64), ('c', U64), ('d', U64)], U256, '    u256::from((a, b, c, d))',
                       lambda e: (F, z3.Concat(e['a'], e['b'], e['c'], e['d']))))
    # U128
    U = 'use std::u128::U128;'
    T2 = Tuple([U64, U64])

    def u128(e, hi, lo):
        return z3.Concat(e[hi], e[lo])

    def parts(v):
        return [z3.Extract(127, 64, v), z3.Extract(63, 0, v)]
    P4 = [('a', U64), ('b', U64), ('c', U64), ('d', U64)]
    cs.append(std_case('u128_add', P4, T2, '    let r = U128::from((a, b)) + U128::from((c, d));\n    (r.upper(), r.lower())',
                       lambda e: (z3.ULT(u128(e, 'a', 'b') + u128(e, 'c', 'd'), u128(e, 'a', 'b')), parts(u128(e, 'a', 'b') + u128(e, 'c', 'd'))), uses=U))
    cs.append(std_case('u128_sub', P4, T2, '    let r = U128::from((a, b)) - U128::from((c, d));\n    (r.upper(), r.lower())',
                       lambda e: (z3.ULT(u128(e, 'a', 'b'), u128(e, 'c', 'd')), parts(u128(e, 'a', 'b') - u128(e, 'c', 'd'))), uses=U))
    cs.append(std_case('u128_cmp', P4, U64, '    let x = U128::from((a, b));\n    let y = U128::from((c, d));\n    if x < y { 1 } else if x == y { 2 } else { 3 }',
                       lambda e: (F, z3.If(z3.ULT(u128(e, 'a', 'b'), u128(e, 'c', 'd')), z3.BitVecVal(1, 64),
                                           z3.If(u128(e, 'a', 'b') == u128(e, 'c', 'd'), z3.BitVecVal(2, 64), z3.BitVecVal(3, 64)))), uses=U))
    cs.append(std_case('u128_mul_small', [('a', U64), ('b', U64)], T2, '    let r = U128::from((a, b)) * U128::from((0, 3));\n    (r.upper(), r.lower())',
                       lambda e: (z3.Not(z3.BVMulNoOverflow(u128(e, 'a', 'b'), z3.BitVecVal(3, 128), False)), parts(u128(e, 'a', 'b') * 3)), uses=U))
    cs.append(std_case('u128_mul_64x64', [('b', U64), ('d', U64)], T2, '    let r = U128::from((0, b)) * U128::from((0, d));\n    (r.upper(), r.lower())',
                       lambda e: (F, parts(z3.ZeroExt(64, e['b']) * z3.ZeroExt(64, e['d']))), uses=U))
    cs.append(std_case('u128_shl', [('a', U64), ('b', U64), ('n', U8)], T2, '    let r = U128::from((a, b)) << n.as_u64();\n    (r.upper(), r.lower())',
                       lambda e: (F, parts(u128(e, 'a', 'b') << z3.ZeroExt(120, e['n']))), uses=U))
    cs.append(std_case('u128_shr', [('a', U64), ('b', U64), ('n', U8)], T2, '    let r = U128::from((a, b)) >> n.as_u64();\n    (r.upper(), r.lower())',
                       lambda e: (F, parts(z3.LShR(u128(e, 'a', 'b'), z3.ZeroExt(120, e['n'])))), uses=U))
    cs.append(std_case('u128_as_u64', [('a', U64), ('b', U64)], U64, '    match U128::from((a, b)).as_u64() { Ok(v) => v, Err(_) => 999, }',
                       lambda e: (F, z3.If(e['a'] == 0, e['b'], z3.BitVecVal(999, 64))), uses=U))
    cs.append(std_case('u128_bits', P4, T2, '    let r = (U128::from((a, b)) & U128::from((c, d))) | !U128::from((c, b));\n    (r.upper(), r.lower())',
                       lambda e: (F, parts((u128(e, 'a', 'b') & u128(e, 'c', 'd')) | ~u128(e, 'c', 'b'))), uses=U))
    cs.append(std_case('u128_div_small', [('a', U64), ('b', U64), ('d', U8)], T2, '    let r = U128::from((a, b)) / U128::from((0, d.as_u64()));\n    (r.upper(), r.lower())',
                       lambda e: (e['d'] == 0, parts(z3.UDiv(u128(e, 'a', 'b'), z3.ZeroExt(120, e['d'])))), uses=U))
    cs += collection_cases(tier, seed)
    return cs


# ---- collections: fixed operation sequences, symbolic element values ------------------------------

def vec_sequences(tier, seed):
    seqs = [
        [('push', 'a'), ('push', 'b'), ('push', 'c'), ('len',), ('get', 1), ('pop',), ('len',), ('get', 2)],
        [('push', 'a'), ('push', 'b'), ('push', 'c'), ('push', 'd'), ('push', 'a'), ('remove', 1), ('get', 1), ('insert', 0, 'b'), ('get', 0), ('get', 4), ('len',)],
        [('pop',), ('push', 'a'), ('set', 0, 'b'), ('get', 0), ('swap', 0, 0), ('is_empty',), ('clear',), ('is_empty',), ('get', 0)],
        [('push', 'a'), ('remove', 1)],
        [('push', 'a'), ('push', 'b'), ('insert', 3, 'c')],
        [('push', 'a'), ('push', 'b'), ('swap', 0, 1), ('get', 0), ('get', 1), ('set', 2, 'c')],
        [('push', 'a'), ('push', 'b'), ('push', 'c'), ('push', 'd'), ('push', 'a'), ('push', 'b'), ('push', 'c'), ('push', 'd'), ('push', 'a'), ('len',), ('get', 8), ('get', 0), ('get', 9)],
    ]
    if tier == 'thorough':
        rng = random.Random(seed * 29 + 11)
        for _ in range(24):
            s = []
            n = 0
            for _ in range(rng.randint(3, 6)):
                k = rng.choice(['push', 'push', 'push', 'pop', 'get', 'set', 'remove', 'insert', 'len', 'swap', 'is_empty', 'clear'])
                if k == 'push':
                    s.append(('push', rng.choice('abcd')))
                elif k in ('get', 'remove'):
                    s.append((k, rng.randint(0, 3)))
                elif k in ('set', 'insert'):
                    s.append((k, rng.randint(0, 3), rng.choice('abcd')))
                elif k == 'swap':
                    s.append((k, rng.randint(0, 3), rng.randint(0, 3)))
                else:
                    s.append((k,))
            seqs.append(s)
    return seqs


def collection_cases(tier, seed):
    cs = []
    P = [('a', U64), ('b', U64), ('c', U64), ('d', U64)]
    for si, seq in enumerate(vec_sequences(tier, seed)):
        body = '    let mut v: Vec<u64> = Vec::new();\n'
        for op in seq:
            k = op[0]
            if k == 'push':
                body += f'    v.push({op[1]});\n'
            elif k == 'pop':
                body += '    log(v.pop().unwrap_or(57005));\n'
            elif k == 'get':
                body += f'    log(v.get({op[1]}).unwrap_or(57005));\n'
            elif k == 'first':
                body += '    log(v.first().unwrap_or(57005));\n'
            elif k == 'last':
                body += '    log(v.last().unwrap_or(57005));\n'
            elif k == 'len':
                body += '    log(v.len());\n'
            elif k == 'is_empty':
                body += '    log(v.is_empty());\n'
            elif k == 'set':
                body += f'    v.set({op[1]}, {op[2]});\n'
            elif k == 'remove':
                body += f'    log(v.remove({op[1]}));\n'
            elif k == 'insert':
                body += f'    v.insert({op[1]}, {op[2]});\n'
            elif k == 'swap':
                body += f'    v.swap({op[1]}, {op[2]});\n'
            elif k == 'clear':
                body += '    v.clear();\n'
        body += '    v.len()'

        def spec_fn(e, seq=seq):
            model = []
            logs = []
            revert = False
            D = z3.BitVecVal(57005, 64)
            for op in seq:
                k = op[0]
                if k == 'push':
                    model.append(e[op[1]])
                elif k == 'pop':
                    logs.append((U64, model.pop() if model else D))
                elif k == 'get':
                    logs.append((U64, model[op[1]] if op[1] < len(model) else D))
                elif k == 'first':
                    logs.append((U64, model[0] if model else D))
                elif k == 'last':
                    logs.append((U64, model[-1] if model else D))
                elif k == 'len':
                    logs.append((U64, z3.BitVecVal(len(model), 64)))
                elif k == 'is_empty':
                    logs.append((BOOL, z3.BoolVal(len(model) == 0)))
                elif k == 'set':
                    if op[1] >= len(model):
                        revert = True
                        break
                    model[op[1]] = e[op[2]]
                elif k == 'remove':
                    if op[1] >= len(model):
                        revert = True
                        break
                    logs.append((U64, model.pop(op[1])))
                elif k == 'insert':
                    if op[1] > len(model):
                        revert = True
                        break
                    model.insert(op[1], e[op[2]])
                elif k == 'swap':
                    if op[1] >= len(model) or op[2] >= len(model):
                        revert = True
                        break
                    model[op[1]], model[op[2]] = model[op[2]], model[op[1]]
                elif k == 'clear':
                    model = []
            return revert, len(model), logs
        c = std_case(f'vec_seq{si}', P, U64, body, lambda e: (F_, None), note='Vec<u64>: ' + ' '.join('.'.join(str(x) for x in op) for op in seq))

        def spec(env, spec_fn=spec_fn):
            rev, n, logs = spec_fn(env)
            return {'revert': z3.BoolVal(bool(rev)), 'ret': abi_encode(z3.BitVecVal(n, 64), U64),
                    'logs': [abi_encode(v, t) for t, v in logs] if not rev else None, 'assume': z3.BoolVal(True)}
        c.spec = spec
        c.tags = ['std', 'vec']
        cs.append(c)
    # Bytes
    bseqs = [
        "    let mut b = Bytes::new();\n    b.push(a);\n    b.push(c);\n    b.push(d);\n    log(b.len());\n    log(b.get(1).unwrap_or(99u8));\n    log(b.pop().unwrap_or(99u8));\n    log(b.get(2).unwrap_or(99u8));\n    b.len()",
        "    let mut b = Bytes::with_capacity(1);\n    b.push(a);\n    b.push(c);\n    b.insert(1, d);\n    log(b.get(0).unwrap_or(99u8));\n    log(b.get(1).unwrap_or(99u8));\n    log(b.get(2).unwrap_or(99u8));\n    log(b.remove(0));\n    log(b.get(0).unwrap_or(99u8));\n    b.len()",
    ]
    PB = [('a', U8), ('c', U8), ('d', U8)]
    D8 = z3.BitVecVal(99, 8)
    b0 = std_case('bytes_seq0', PB, U64, bseqs[0], lambda e: (F_, None), uses='use std::bytes::Bytes;')
    b0.spec = lambda env: {'revert': z3.BoolVal(False), 'ret': abi_encode(z3.BitVecVal(2, 64), U64),
                           'logs': [abi_encode(z3.BitVecVal(3, 64), U64), abi_encode(env['c'], U8), abi_encode(env['d'], U8), abi_encode(D8, U8)], 'assume': z3.BoolVal(True)}
    b1 = std_case('bytes_seq1', PB, U64, bseqs[1], lambda e: (F_, None), uses='use std::bytes::Bytes;')
    b1.spec = lambda env: {'revert': z3.BoolVal(False), 'ret': abi_encode(z3.BitVecVal(2, 64), U64),
                           'logs': [abi_encode(env['a'], U8), abi_encode(env['d'], U8), abi_encode(env['c'], U8), abi_encode(env['a'], U8), abi_encode(env['d'], U8)], 'assume': z3.BoolVal(True)}
    cs += [b0, b1]
    return cs


F_ = z3.BoolVal(False)
