"""process-wide state shared by the typed checks' worker functions (a module of its own so that it
is the same object whether a driver runs as `__main__` or is imported)"""
import os
from .common import VmRun

_G = {}


def _vm():
    key = ('vm', os.getpid())
    if key not in _G:
        _G[key] = VmRun()
    return _G[key]
