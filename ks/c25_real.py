"""Real-file-system confirmation of a C25 schedule: the same sliced PidFileLocking methods are
compiled against std::fs (ks/c25_real/shim.rs) and driven as real OS processes: process A is
stepped through its file-system calls, process B runs one complete operation at the pre-emption
point, then an observer process calls is_locked()."""
import os
import shutil
import subprocess
import tempfile
import time

from . import slicer as S
from .c25 import METHODS, OPS

VERIF = os.path.dirname(os.path.dirname(os.path.abspath(__file__)))
WORK = os.path.join(VERIF, '.work', 'ks', 'C25', 'real')


def build():
    os.makedirs(os.path.join(WORK, 'src'), exist_ok=True)
    text = S.read('forc-util/src/fs_locking.rs')
    imp = S.extract_impl(text, r'PidFileLocking\s*')
    body = '\n\n'.join(S.extract_fn(imp, m, with_attrs=False) for m in METHODS).replace('std::process::id()', 'my_pid()')
    open(os.path.join(WORK, 'src', 'sliced.rs'), 'w').write('impl PidFileLocking {\n' + body + '\n}\n')
    shutil.copy(os.path.join(VERIF, 'ks', 'c25_real', 'shim.rs'), os.path.join(WORK, 'src', 'main.rs'))
    open(os.path.join(WORK, 'Cargo.toml'), 'w').write('[package]\nname = "pidlock_real"\nversion = "0.1.0"\nedition = "2021"\n[workspace]\n')
    env = dict(os.environ, CARGO_NET_OFFLINE='true')
    env.pop('RUSTFLAGS', None)
    r = subprocess.run(['cargo', 'build', '--offline', '--release'], cwd=WORK, env=env, text=True, stdout=subprocess.PIPE, stderr=subprocess.STDOUT)
    if r.returncode != 0:
        raise RuntimeError(r.stdout[-3000:])
    return os.path.join(WORK, 'target', 'release', 'pidlock_real')


def wait_file(path, timeout=20.0):
    t = time.time()
    while not os.path.exists(path):
        if time.time() - t > timeout:
            return False
        time.sleep(0.002)
    return True


def run_schedule(binary, pre, a_op, b_op, preempt_at=None, crash_at=None):
    """pre: nofile | dead_owner | empty_file | held_by_self | held_by_live_other;
    preempt_at / crash_at: 1-based index of A's fs call before which B runs / A is killed.
    -> dict with what an observer process sees afterwards and who holds the flag"""
    os.makedirs(WORK, exist_ok=True)
    home = tempfile.mkdtemp(prefix='c25home_', dir=WORK)
    ctl = tempfile.mkdtemp(prefix='c25ctl_', dir=WORK)
    lockdir = os.path.join(home, '.lsp-locks')
    os.makedirs(lockdir)
    lockfile = os.path.join(lockdir, 'f.lock')
    env = dict(os.environ, C25_HOME=home, C25_CTL=ctl)
    H = None
    holders = {}
    if pre == 'dead_owner':
        p = subprocess.Popen(['true'])
        p.wait()
        open(lockfile, 'w').write(str(p.pid))
    elif pre == 'empty_file':
        open(lockfile, 'w').close()
    elif pre == 'held_by_live_other':
        H = subprocess.Popen([binary, 'lock', 'hold'], env=dict(env, C25_STEP='0'), stdout=subprocess.PIPE, text=True)
        wait_file(os.path.join(ctl, f'result_{H.pid}'))
        holders[H.pid] = True
    a_args = [binary, a_op, 'hold'] + (['prelock'] if pre == 'held_by_self' else [])
    A = subprocess.Popen(a_args, env=dict(env, C25_STEP='1'), stdout=subprocess.PIPE, text=True)
    if pre == 'held_by_self':
        holders[A.pid] = True
    step = 0
    b_result = None
    b_pid = None
    steps_seen = []
    killed = False
    while True:
        step += 1
        at = os.path.join(ctl, f'at_{A.pid}_{step}')
        res = os.path.join(ctl, f'result_{A.pid}')
        t = time.time()
        while not os.path.exists(at) and not os.path.exists(res):
            if time.time() - t > 20:
                break
            time.sleep(0.002)
        if os.path.exists(at):
            steps_seen.append(open(at).read())
            if crash_at is not None and step == crash_at:
                A.kill()
                A.wait()
                killed = True
                break
            if preempt_at is not None and step == preempt_at:
                B = subprocess.Popen([binary, b_op, 'hold'], env=dict(env, C25_STEP='0'), stdout=subprocess.PIPE, text=True)
                wait_file(os.path.join(ctl, f'result_{B.pid}'))
                b_pid = B.pid
                b_result = open(os.path.join(ctl, f'result_{B.pid}')).read()
                if b_op == 'lock' and b_result.startswith('Ok'):
                    holders[B.pid] = True
                if b_op == 'release':
                    holders.pop(B.pid, None)
            open(os.path.join(ctl, f'go_{A.pid}_{step}'), 'w').close()
            continue
        break
    a_result = open(os.path.join(ctl, f'result_{A.pid}')).read() if os.path.exists(os.path.join(ctl, f'result_{A.pid}')) else None
    if not killed:
        if a_op == 'lock' and a_result and a_result.startswith('Ok'):
            holders[A.pid] = True
        if a_op == 'release':
            holders.pop(A.pid, None)
    else:
        holders.pop(A.pid, None)   # a dead process holds nothing
    content = open(lockfile).read() if os.path.exists(lockfile) else None
    O = subprocess.run([binary, 'is_locked'], env=dict(env, C25_STEP='0'), stdout=subprocess.PIPE, text=True, timeout=30)
    sees = 'true' in O.stdout.split('->')[-1]
    live_holder = any(holders.values())
    out = {'pre': pre, 'a': a_op, 'b': b_op, 'a_pid': A.pid, 'b_pid': b_pid, 'a_fs_calls': steps_seen, 'preempted_before_call': preempt_at, 'killed_before_call': crash_at,
           'a_result': a_result, 'b_result': b_result, 'lock_file_content_before_observation': content, 'observer_sees_locked': sees,
           'live_holder': live_holder, 'violation': sees != live_holder}
    for p in os.listdir(ctl):
        pass
    for proc in [A, H] + ([B] if preempt_at is not None and b_pid else []):
        if proc is None:
            continue
        open(os.path.join(ctl, f'exit_{proc.pid}'), 'w').close()
        try:
            proc.wait(timeout=5)
        except Exception:
            proc.kill()
    shutil.rmtree(home, ignore_errors=True)
    shutil.rmtree(ctl, ignore_errors=True)
    return out


if __name__ == '__main__':
    import json
    import sys
    b = build()
    print(json.dumps(run_schedule(b, sys.argv[1], sys.argv[2], sys.argv[3], preempt_at=int(sys.argv[4]) if sys.argv[4] != '-' else None, crash_at=int(sys.argv[5]) if len(sys.argv) > 5 else None), indent=1))
