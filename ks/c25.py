"""C25: dirty-file flags between processes — Kani over PidFileLocking::{lock, release, remove_file,
get_locker_pid, is_locked, cleanup_stale_files} sliced from forc-util, run against a one-file
virtual file system; sequentialised schedules: process A runs one operation, at any file-system
call it may be pre-empted once by one complete operation of process B, or die; an observer
process then calls the real is_locked()."""
import re
from . import slicer as S
from .kani import Crate, Harness, harness_attrs

SHIM = r'''
// ---- shim paths: one lock file in one directory ------------------------------------------------
#[derive(Clone, Debug)]
pub struct PathBuf(u8); // 0 = base dir, 1 = lock dir, 2 = lock file
pub type Path = PathBuf;
pub struct Ext;
impl Ext { pub fn to_str(&self) -> Option<&'static str> { Some("lock") } }
impl PathBuf {
    pub fn from(_s: &str) -> PathBuf { PathBuf(2) }
    pub fn parent(&self) -> Option<&PathBuf> { static D: PathBuf = PathBuf(1); if self.0 == 2 { Some(&D) } else { None } }
    pub fn join(&self, _s: &str) -> PathBuf { PathBuf(1) }
    pub fn extension(&self) -> Option<Ext> { if self.0 == 2 { Some(Ext) } else { None } }
}

// ---- virtual environment -----------------------------------------------------------------------
#[derive(Clone, Copy, PartialEq, Eq, Debug)]
pub enum Content { Empty, Pid(usize), Garbage }
pub struct Model {
    pub file: Option<usize>,        // inode of the one lock file, if linked
    pub inodes: [Content; 6],
    pub next_inode: usize,
    pub alive: [bool; 6],
    pub cur: usize,
    pub depth: u8,
    pub preempt_budget: u8,
    pub crash_budget: u8,
    pub holds: [bool; 6],           // ghost: lock() returned Ok and release() not begun
    pub trace: [u8; 24],
    pub tlen: usize,
}
pub static mut B_OP: u8 = 0;
pub static mut M: Model = Model { file: None, inodes: [Content::Empty; 6], next_inode: 0, alive: [false; 6], cur: 1, depth: 0,
    preempt_budget: 0, crash_budget: 0, holds: [false; 6], trace: [0; 24], tlen: 0 };
const LOCK_PATH: &str = "d/.lsp-locks/f.lock";
fn user_forc_directory() -> PathBuf { PathBuf(0) }
fn my_pid() -> u32 { unsafe { M.cur as u32 } }
fn note(_code: u8) {}

pub mod io {
    #[derive(Debug)]
    pub struct Error { k: std::io::ErrorKind }
    pub type Result<T> = core::result::Result<T, Error>;
    impl Error {
        pub fn other<T>(_t: T) -> Error { Error { k: std::io::ErrorKind::Other } }
        pub fn kind(&self) -> std::io::ErrorKind { self.k }
        pub fn new(k: std::io::ErrorKind) -> Error { Error { k } }
    }
}
pub struct File { inode: usize }
pub struct DirEntry;
impl DirEntry { pub fn path(&self) -> PathBuf { PathBuf::from(LOCK_PATH) } }
pub struct ReadDir { left: u8 }
impl Iterator for ReadDir {
    type Item = io::Result<DirEntry>;
    fn next(&mut self) -> Option<Self::Item> { if self.left > 0 { self.left -= 1; Some(Ok(DirEntry)) } else { None } }
}
fn dead() -> io::Error { io::Error::new(std::io::ErrorKind::Interrupted) }

/// Every virtual file-system call starts here: the running process may have died, may die now, or
/// may be pre-empted by one complete operation of the other process.
fn sched_point(code: u8) -> bool {
    unsafe {
        if !M.alive[M.cur] { return false; }
        if M.depth == 0 {
            if M.crash_budget > 0 && kani::any::<bool>() {
                M.crash_budget -= 1;
                M.alive[M.cur] = false;
                note(200 + code);
                return false;
            }
            if M.preempt_budget > 0 && kani::any::<bool>() {
                M.preempt_budget -= 1;
                M.depth = 1;
                let saved = M.cur;
                M.cur = if saved == 1 { 2 } else { 1 };
                note(100 + code);
                run_one_op(B_OP);
                M.cur = saved;
                M.depth = 0;
            }
        }
        note(code + (M.cur as u8) * 10);
        true
    }
}
impl File {
    pub fn create<P>(_p: P) -> io::Result<File> {
        if !sched_point(1) { return Err(dead()); }
        unsafe {
            let ino = match M.file { Some(i) => i, None => { let i = M.next_inode; M.next_inode += 1; M.file = Some(i); i } };
            M.inodes[ino] = Content::Empty;
            Ok(File { inode: ino })
        }
    }
    pub fn open<P>(_p: P) -> io::Result<File> {
        if !sched_point(2) { return Err(dead()); }
        unsafe { match M.file { Some(i) => Ok(File { inode: i }), None => Err(io::Error::new(std::io::ErrorKind::NotFound)) } }
    }
    pub fn read_to_string(&mut self, buf: &mut String) -> io::Result<usize> {
        if !sched_point(3) { return Err(dead()); }
        unsafe {
            match M.inodes[self.inode] {
                Content::Empty => {}
                Content::Garbage => buf.push('x'),
                Content::Pid(p) => buf.push((b'0' + p as u8) as char),
            }
        }
        Ok(buf.len())
    }
    pub fn write_all(&mut self, bytes: &[u8]) -> io::Result<()> {
        if !sched_point(4) { return Err(dead()); }
        unsafe {
            M.inodes[self.inode] = if bytes.len() == 1 && bytes[0] >= b'0' && bytes[0] <= b'9' { Content::Pid((bytes[0] - b'0') as usize) } else { Content::Garbage };
        }
        Ok(())
    }
    pub fn sync_all(&self) -> io::Result<()> { Ok(()) }
    pub fn flush(&mut self) -> io::Result<()> { Ok(()) }
}
pub fn remove_file<P>(_p: P) -> io::Result<()> {
    if !sched_point(5) { return Err(dead()); }
    unsafe { match M.file.take() { Some(_) => Ok(()), None => Err(io::Error::new(std::io::ErrorKind::NotFound)) } }
}
pub fn create_dir_all<P>(_p: P) -> io::Result<()> { if !sched_point(6) { return Err(dead()); } Ok(()) }
pub fn read_dir<P>(_p: P) -> io::Result<ReadDir> {
    if !sched_point(7) { return Err(dead()); }
    unsafe { Ok(ReadDir { left: if M.file.is_some() { 1 } else { 0 } }) }
}

pub struct PidFileLocking(PathBuf);
impl PidFileLocking {
    fn is_pid_active(pid: usize) -> bool { unsafe { pid < 6 && M.alive[pid] } }
}
fn the_lock() -> PidFileLocking { PidFileLocking(PathBuf::from(LOCK_PATH)) }
/// 0 = lock (mark dirty), 1 = release (clear), 2 = is_locked (check), 3 = cleanup_stale_files
fn run_one_op(which: u8) {
    let l = the_lock();
    unsafe {
        let me = M.cur;
        match which % 4 {
            0 => { if l.lock().is_ok() && M.alive[me] { M.holds[me] = true; } }
            1 => { M.holds[me] = false; let _ = l.release(); }
            2 => { let _ = l.is_locked(); }
            _ => { let _ = PidFileLocking::cleanup_stale_files(); }
        }
    }
}
pub fn stub_format(_a: std::fmt::Arguments<'_>) -> String { String::new() }
fn setup(pre: u8, a_op: u8, b_op: u8, preempt: u8, crash: u8) {
    unsafe {
        M = Model { file: None, inodes: [Content::Empty; 6], next_inode: 0, alive: [false, true, true, true, false, false], cur: 1, depth: 0,
            preempt_budget: preempt, crash_budget: crash, holds: [false; 6], trace: [0; 24], tlen: 0 };
        B_OP = b_op;
        match pre {
            0 => {}                                                                                              // no flag file
            1 => { M.file = Some(0); M.next_inode = 1; M.inodes[0] = Content::Pid(2); M.holds[2] = true; }   // flag held by live process 2
            2 => { M.file = Some(0); M.next_inode = 1; M.inodes[0] = Content::Pid(4); }                      // flag of dead process 4
            3 => { M.file = Some(0); M.next_inode = 1; M.inodes[0] = Content::Empty; }                       // empty legacy file
            _ => { M.file = Some(0); M.next_inode = 1; M.inodes[0] = Content::Pid(1); M.holds[1] = true; }   // flag held by process 1 itself
        }
    }
}
fn observe_and_check() {
    unsafe {
        M.depth = 1; // quiescent: no more scheduling
        M.cur = 3;
        let seen = the_lock().is_locked();
        let live_holder = (M.holds[1] && M.alive[1]) || (M.holds[2] && M.alive[2]);
        if live_holder { assert!(seen, "a live process holds the flag but another process sees the file as clear"); }
        if !live_holder { assert!(!seen, "no live process holds the flag but it still reads as set"); }
    }
}
'''

OPS = ['lock', 'release', 'is_locked', 'cleanup']
PRES = ['nofile', 'held_by_live_other', 'dead_owner', 'empty_file', 'held_by_self']
METHODS = ['release', 'remove_file', 'get_locker_pid', 'is_locked', 'lock', 'cleanup_stale_files']


def build(tier):
    unlocated, sliced, harnesses = [], [], []
    lib = SHIM
    try:
        text = S.read('forc-util/src/fs_locking.rs')
        imp = S.extract_impl(text, r'PidFileLocking\s*')
        ms = []
        for m in METHODS:
            ms.append(S.extract_fn(imp, m, with_attrs=False))
        body = '\n\n'.join(ms)
        n_pid = body.count('std::process::id()')
        body = body.replace('std::process::id()', 'my_pid()')
        lib += 'impl PidFileLocking {\n' + body + '\n}\n'
        sliced.append(f'forc-util/src/fs_locking.rs: PidFileLocking::{{{", ".join(METHODS)}}} (verbatim except {n_pid} occurrences of std::process::id() replaced by the model\'s current process id)')
    except S.Unlocated as e:
        return Crate('C25', 'c25_pidlock', lib, []), [f'PidFileLocking: {e}'], sliced

    stubs = [('alloc::fmt::format', 'stub_format')]
    combos = []
    for pre in range(len(PRES)):
        for a in range(4):
            for b in range(4):
                combos.append((pre, a, b))
    if tier == 'quick':
        # interrupting operations that write to the directory (lock, release, cleanup); empty legacy file and the
        # cleanup-as-interrupted-operation rows are left to the thorough tier
        combos = [(p, a, b) for (p, a, b) in combos if b in (0, 1, 3) and p != 3 and a != 3]
        # measured on an idle machine: these do not finish within 900 s / 16 GB (the interrupting lock/release is
        # inlined at every file-system call of the interrupted lock/release); they stay in the thorough tier
        def heavy(p, a, b):
            if PRES[p] == 'dead_owner' and (OPS[a] in ('lock', 'release') or (OPS[a] == 'is_locked' and OPS[b] == 'cleanup')):
                return True
            if (PRES[p], OPS[a], OPS[b]) in (('dead_owner', 'is_locked', 'release'), ('held_by_self', 'lock', 'lock'), ('held_by_live_other', 'is_locked', 'release')):
                return True   # > 450 s each when 8 harnesses run in parallel
            return OPS[a] in ('lock', 'release') and OPS[b] in ('lock', 'release') and PRES[p] != 'held_by_self'
        combos = [(p, a, b) for (p, a, b) in combos if not heavy(p, a, b)]
    for pre, a, b in combos:
        name = f'sched_{PRES[pre]}_{OPS[a]}_by_{OPS[b]}'
        h = Harness(name, unwind=6, stubs=stubs, timeout=900 if tier == 'quick' else 2400,
                    note=f'pre-state {PRES[pre]}; process 1 runs {OPS[a]}, pre-empted at most once (at any fs call) by a complete {OPS[b]} of process 2; observer calls is_locked',
                    meta={'kind': 'preempt', 'pre': PRES[pre], 'a': OPS[a], 'b': OPS[b]})
        body = (f'    setup({pre}, {a}, {b}, 1, 0);\n    run_one_op({a});\n    observe_and_check();\n    kani::cover!(true);\n')
        lib += harness_attrs(h) + f'pub fn {name}() {{\n{body}}}\n'
        harnesses.append(h)
    for pre in range(len(PRES)):
        for a in range(4):
            if tier == 'quick' and (pre == 3 or a == 3):
                continue
            name = f'crash_{PRES[pre]}_{OPS[a]}'
            h = Harness(name, unwind=6, stubs=stubs, timeout=900 if tier == 'quick' else 2400,
                        note=f'pre-state {PRES[pre]}; process 1 runs {OPS[a]} and may die at any fs call; observer calls is_locked',
                        meta={'kind': 'crash', 'pre': PRES[pre], 'a': OPS[a]})
            body = (f'    setup({pre}, {a}, 2, 0, 1);\n    run_one_op({a});\n    observe_and_check();\n    kani::cover!(true);\n')
            lib += harness_attrs(h) + f'pub fn {name}() {{\n{body}}}\n'
            harnesses.append(h)
    return Crate('C25', 'c25_pidlock', lib, harnesses), unlocated, sliced
