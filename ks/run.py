"""Entry point of the Kani-based checks:  python3-vt -m ks.run C06 --tier quick"""
import argparse
import json
import os
import re
import sys
import time

sys.path.insert(0, os.path.dirname(os.path.dirname(os.path.abspath(__file__))))
from sv.common import load_known_findings, log, write_evidence, write_replay  # noqa: E402
from . import kani as K  # noqa: E402


def finding_for(known, pid, h, r):
    for f in known.get('findings', []):
        if f.get('property') != pid and pid not in f.get('properties', []):
            continue
        m = f.get('match', {})
        if 'harness' in m and not re.fullmatch(m['harness'], h.name):
            continue
        if 'meta' in m and any(h.meta.get(k) != v for k, v in m['meta'].items()):
            continue
        if 'any_meta' in m and not any(all(h.meta.get(k) == v for k, v in alt.items()) for alt in m['any_meta']):
            continue
        if 'failed_check' in m and not any(re.search(m['failed_check'], c) for c in r.get('failed_checks', [])):
            continue
        if 'replay' in m and not any(re.search(m['replay'], str(v)) for v in (r.get('replay') or {}).values()):
            continue
        if 'e2e_message' in m and not re.search(m['e2e_message'], (r.get('e2e') or {}).get('message', '')):
            continue
        return f
    return None


def c21_string(h, vals):
    m = h.meta
    n = m.get('len', 0)
    bs = [v[0] if v else 0 for v in vals[:n]]
    if m.get('shape') == 'ref':
        # the end-to-end string uses a really valid URL / hash / cid around the symbolic component
        return (m['e2e_pre'].encode() + bytes(bs) + m['e2e_post'].encode()).decode('utf-8', 'replace')
    if m.get('shape') == 'tail':
        from .c21 import PREFIX
        return (PREFIX[m['parser']].encode() + bytes(bs)).decode('utf-8', 'replace')
    if m.get('shape') == 'multibyte':
        out = bytearray()
        for i in range(n + 1):
            if i == m['pos']:
                out += b'\xc3\xa9'
            if i < n:
                out.append(bs[i])
        return out.decode('utf-8', 'replace')
    return bytes(bs).decode('utf-8', 'replace')


def c21_e2e(h, vals):
    """replay through the real forc binary: a crafted Forc.lock must produce an error, not a panic"""
    import subprocess, shutil
    from sv.common import FORC, WORK, ensure_forc
    ensure_forc()
    s = c21_string(h, vals)
    d = os.path.join(WORK, 'ks', 'C21', 'e2e', h.name)
    shutil.rmtree(d, ignore_errors=True)
    os.makedirs(os.path.join(d, 'src'))
    open(os.path.join(d, 'Forc.toml'), 'w').write('[project]\nauthors = ["v"]\nentry = "main.sw"\nlicense = "Apache-2.0"\nname = "lk"\nimplicit-std = false\n')
    open(os.path.join(d, 'src', 'main.sw'), 'w').write('script; fn main() {}\n')
    q = json.dumps(s)
    if h.meta.get('parser') == 'dep_line':
        lock = f'[[package]]\nname = "lk"\nsource = "member"\ndependencies = [{q}]\n'
    else:
        lock = f'[[package]]\nname = "lk"\nsource = {q}\n'
    open(os.path.join(d, 'Forc.lock'), 'w').write(lock)
    r = subprocess.run([FORC, 'build', '--offline', '--path', d], text=True, stdout=subprocess.PIPE, stderr=subprocess.STDOUT,
                       env=dict(os.environ, RUST_BACKTRACE='0', NO_COLOR='1'), timeout=300)
    pan = re.search(r"panicked at ([^\n]*)\n([^\n]*)", r.stdout)
    return {'string': s, 'lock': lock, 'panicked': bool(pan), 'message': (pan.group(1) + ' ' + pan.group(2)) if pan else r.stdout[-300:]}


def main(argv=None):
    ap = argparse.ArgumentParser()
    ap.add_argument('pid')
    ap.add_argument('--tier', default=os.environ.get('VERIF_TIER', 'quick'))
    ap.add_argument('--seed', type=int, default=int(os.environ.get('VERIF_SEED', '0')))
    ap.add_argument('--harness', default=None)
    ap.add_argument('--replay', default=None)
    a = ap.parse_args(argv)
    pid, tier = a.pid, a.tier
    if a.replay:
        print(open(a.replay).read()[:4000])
        return 0
    t0 = time.time()
    extra_assumptions = []
    pre_violations = []
    if pid == 'C06':
        from sv.asmrules import parse_table
        from . import c06, vmcheck
        crate, unlocated, sliced = c06.build(tier, parse_table())
        crate.write()
        vmc = vmcheck.check_model(crate)
        extra_assumptions.append(f'VM ALU model cross-checked against the real fuel-vm on {vmc["pairs"]} boundary operand pairs x {vmc["ops"]} ops this run ({vmc["mismatches"]} mismatches)')
        if vmc['mismatches']:
            print('ENGINE-ERROR property=C06: VM model disagrees with the real interpreter: ' + json.dumps(vmc['examples'][:3]))
            return 2
    elif pid == 'C21':
        from . import c21
        crate, unlocated, sliced = c21.build(tier)
    elif pid == 'C23':
        from . import c23
        crate, unlocated, sliced = c23.build(tier, a.seed)
    elif pid == 'C25':
        from . import c25
        crate, unlocated, sliced = c25.build(tier)
    else:
        raise SystemExit(f'unknown KS property {pid}')
    if a.harness:
        crate.harnesses = [h for h in crate.harnesses if re.search(a.harness, h.name)]
    results = K.run_all(crate, tier)
    known = load_known_findings()
    violations = 0
    engine_errors = 0
    known_printed = set()
    st = {}
    samples = []
    unexplored = []
    solver_s = 0.0
    nontrivial = 0
    for h, r in results:
        st[r['status']] = st.get(r['status'], 0) + 1
        solver_s += r.get('solver_s', 0.0)
        if r['status'] == 'success':
            if r.get('cover_total', 0) == 0 or r.get('cover_sat', 0) > 0:
                nontrivial += 1
            else:
                unexplored.append({'harness': h.name, 'why': 'vacuous: reachability witness (cover) unsatisfiable'})
        elif r['status'] == 'failed':
            rep = r.get('replay') or {}
            reproduced = any('PANICKED' in str(v) for v in rep.values())
            if pid == 'C21' and (reproduced or h.meta.get('shape') == 'ref'):
                # (deep shapes stub the hash/cid validators, which a native replay cannot do: the end-to-end
                # replay through the real forc binary is their confirmation)
                reproduced = True
                e2e = c21_e2e(h, r.get('vals') or [])
                r['e2e'] = e2e
                rep['forc_e2e'] = e2e
                if not e2e['panicked']:
                    unexplored.append({'harness': h.name, 'why': 'counterexample depends on the outcome of a shimmed external parser; not reproduced through the real forc binary',
                                       'string': e2e['string'], 'forc': e2e['message'][-200:]})
                    st['unconfirmed'] = st.get('unconfirmed', 0) + 1
                    continue
            if reproduced and pid == 'C25':
                from . import c25_real
                vals = r.get('vals') or []
                k = next((i + 1 for i, v in enumerate(vals) if v and v[0] & 1), None)
                try:
                    binary = c25_real.build()
                    if h.meta.get('kind') == 'crash':
                        real = c25_real.run_schedule(binary, h.meta['pre'], h.meta['a'], 'is_locked', crash_at=k)
                    else:
                        real = c25_real.run_schedule(binary, h.meta['pre'], h.meta['a'], h.meta['b'], preempt_at=k)
                except Exception as e:  # noqa
                    real = {'error': repr(e), 'violation': False}
                r['real_fs'] = real
                rep['real_fs'] = real
                if not real.get('violation'):
                    unexplored.append({'harness': h.name, 'why': 'model-level counterexample not reproduced with real OS processes on the real file system', 'real': real})
                    st['unconfirmed'] = st.get('unconfirmed', 0) + 1
                    continue
            if not reproduced:
                engine_errors += 1
                log(f'ENGINE-ERROR harness {h.name}: Kani counterexample did not reproduce natively: vals={r.get("vals")} replay={rep} checks={r["failed_checks"][:3]}')
                continue
            f = finding_for(known, pid, h, r)
            if f:
                key = f.get('id', f['what'])
                if key not in known_printed:
                    known_printed.add(key)
                    print(f"KNOWN-FINDING: property={pid} {f['what']} (harness {h.name}, values {r.get('vals')})")
                continue
            violations += 1
            p = write_replay(pid, h.name, {'property': pid, 'harness': h.name, 'note': h.note, 'meta': h.meta, 'concrete_vals': r.get('vals'),
                                           'failed_checks': r['failed_checks'], 'native_replay': rep, 'crate': crate.dir})
            print(f'VIOLATION property={pid} replay={p}')
            print(f'  harness {h.name} ({h.note}): {r["failed_checks"][:2]} native: {rep}')
        else:
            unexplored.append({'harness': h.name, 'why': r['status'], 'seconds': r['seconds'], 'detail': r['failed_checks'][:2] or r.get('out', '')[-300:]})
        if len(samples) < 8:
            samples.append({'harness': h.name, 'note': h.note, 'status': r['status'], 'seconds': r['seconds'], 'unwind': h.unwind,
                            'sat_vars': r.get('sat_vars'), 'sat_clauses': r.get('sat_clauses')})
    coverage = {
        'evaluations': len(results),
        'distinct_nontrivial': nontrivial,
        'rule': 'one evaluation = one Kani harness (CBMC bounded model checking run, unwinding assertions on); non-trivial = verified '
                'successfully with a satisfiable reachability witness (kani::cover!) ; harnesses are distinct by construction',
        'samples': samples,
        'obligations': len(results),
        'discharged': st.get('success', 0),
        'status_counts': st,
        'solver_s': round(solver_s, 1),
        'unexplored': unexplored[:60],
        'unlocated': unlocated,
        'sliced_verbatim': sliced,
        'harnesses': [{'name': h.name, 'note': h.note, 'unwind': h.unwind, 'stubs': [s[0] for s in h.stubs], 'status': r['status'], 'seconds': r['seconds']} for h, r in results],
        'exhaustive': False,
    }
    assumptions = ['Kani 0.68 / CBMC 6.11 (cadical) are sound for the compiled harness; harnesses model the dev profile (overflow checks on); counterexamples are replayed natively in dev and release',
                   'code under test is sliced verbatim from /repo at run time; shims and stubs as listed in coverage.sliced_verbatim / harnesses[].stubs',
                   'timeouts, out-of-memory runs and failed unwinding assertions are reported as unexplored, never as held'] + extra_assumptions
    write_evidence(pid, tier, a.seed, 'model_checking', coverage, assumptions, time.time() - t0, violations)
    log(f'[{pid}] {len(results)} harnesses: {st}; unexplored {len(unexplored)}; unlocated {len(unlocated)}; wall {time.time() - t0:.0f}s')
    if violations:
        return 1
    if engine_errors:
        print(f'ENGINE-ERROR property={pid}: {engine_errors} counterexamples did not reproduce natively')
        return 2
    return 0


def _guarded():
    try:
        return main()
    except SystemExit:
        raise
    except BaseException as e:  # machinery failure is never a verdict about the property
        import traceback
        traceback.print_exc()
        print(f'ENGINE-ERROR: {type(e).__name__}: {str(e)[:500]}')
        return 2


if __name__ == '__main__':
    sys.exit(_guarded())
