"""Cross-check of the Rust VM ALU model used by the C06 harnesses against the real fuel-vm:
boundary operand pairs are executed by a hand-assembled 6-instruction script on the real
interpreter (vmrun) and by the model compiled natively."""
import os
import subprocess
import sys

sys.path.insert(0, os.path.dirname(os.path.dirname(os.path.abspath(__file__))))
from sv.symvm import OPTAB, IMMW  # noqa: E402
from sv.common import VmRun, normalize_receipts  # noqa: E402
from . import kani as K  # noqa: E402

BY_NAME = {v[0]: (k, v[1]) for k, v in OPTAB.items()}


def enc(name, *args):
    code, kinds = BY_NAME[name]
    word = code << 24
    shift = 24
    for k, a in zip(kinds, args):
        if k == 'RegId':
            shift -= 6
            word |= (a & 0x3f) << shift
        else:
            word |= a & ((1 << IMMW[k]) - 1)
    return word.to_bytes(4, 'big')


def program(op):
    p = enc('GTF', 16, 0, 0x00A) + enc('LW', 17, 16, 0) + enc('LW', 18, 16, 1)
    p += enc('NOT', 19, 17) if op == 'NOT' else enc(op, 19, 17, 18)
    p += enc('LOG', 19, 0, 0, 0) + enc('RET', 1)
    return p


OPS = ['ADD', 'SUB', 'MUL', 'DIV', 'MOD', 'AND', 'OR', 'XOR', 'SLL', 'SRL', 'EXP', 'MLOG', 'EQ', 'GT', 'LT', 'NOT']
VALS = [0, 1, 2, 3, 7, 8, 63, 64, 65, 255, 256, 65535, 65536, (1 << 32) - 1, 1 << 32, (1 << 32) + 1, 3037000499, 3037000500,
        (1 << 63) - 1, 1 << 63, (1 << 64) - 2, (1 << 64) - 1]


def check_model(crate):
    bins = K.build_native(crate)
    model = os.path.join(os.path.dirname(bins['dev']), 'vmmodel')
    vm = VmRun()
    lines = []
    real = []
    for op in OPS:
        prog = program(op)
        for b in VALS:
            for c in VALS:
                lines.append(f'{op} {b} {c}')
                o, logs = normalize_receipts(vm.run(prog, b.to_bytes(8, 'big') + c.to_bytes(8, 'big')))
                if o['kind'] == 'panic':
                    real.append('panic')
                elif logs:
                    real.append(f'ok {logs[0][1]}')
                else:
                    real.append(f'?? {o}')
    vm.close()
    r = subprocess.run([model], input='\n'.join(lines) + '\n', text=True, stdout=subprocess.PIPE)
    got = r.stdout.split('\n')[:len(lines)]
    mism = [{'case': l, 'model': g, 'vm': w} for l, g, w in zip(lines, got, real) if g != w]
    return {'pairs': len(VALS) ** 2, 'ops': len(OPS), 'mismatches': len(mism), 'examples': mism[:5]}
