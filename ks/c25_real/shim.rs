// Pass-through shim: the sliced PidFileLocking methods run on the real file system; before every
// file-system call the process waits at a named barrier when stepping is enabled, so that a
// controller can reproduce a schedule found by the model checker with real OS processes.
use std::io::{Read as _, Write as _};
pub use std::path::{Path, PathBuf};
pub mod io { pub use std::io::*; }

fn ctl_dir() -> PathBuf { PathBuf::from(std::env::var("C25_CTL").expect("C25_CTL")) }
fn stepping() -> bool { std::env::var("C25_STEP").map(|v| v == "1").unwrap_or(false) }
static mut STEP: usize = 0;
fn sync_point(what: &str) {
    if !stepping() { return; }
    let n = unsafe { STEP += 1; STEP };
    let me = std::process::id();
    std::fs::write(ctl_dir().join(format!("at_{me}_{n}")), what).unwrap();
    let go = ctl_dir().join(format!("go_{me}_{n}"));
    while !go.exists() { std::thread::sleep(std::time::Duration::from_millis(2)); }
}
fn user_forc_directory() -> PathBuf { PathBuf::from(std::env::var("C25_HOME").expect("C25_HOME")) }
fn my_pid() -> u32 { std::process::id() }

pub struct File(std::fs::File);
impl File {
    pub fn create<P: AsRef<std::path::Path>>(p: P) -> io::Result<File> { sync_point("create"); std::fs::File::create(p).map(File) }
    pub fn open<P: AsRef<std::path::Path>>(p: P) -> io::Result<File> { sync_point("open"); std::fs::File::open(p).map(File) }
    pub fn read_to_string(&mut self, buf: &mut String) -> io::Result<usize> { sync_point("read"); self.0.read_to_string(buf) }
    pub fn write_all(&mut self, bytes: &[u8]) -> io::Result<()> { sync_point("write"); self.0.write_all(bytes) }
    pub fn sync_all(&self) -> io::Result<()> { self.0.sync_all() }
    pub fn flush(&mut self) -> io::Result<()> { self.0.flush() }
}
pub fn remove_file<P: AsRef<std::path::Path>>(p: P) -> io::Result<()> { sync_point("remove"); std::fs::remove_file(p) }
pub fn create_dir_all<P: AsRef<std::path::Path>>(p: P) -> io::Result<()> { sync_point("mkdir"); std::fs::create_dir_all(p) }
pub fn read_dir<P: AsRef<std::path::Path>>(p: P) -> io::Result<std::fs::ReadDir> { sync_point("readdir"); std::fs::read_dir(p) }

pub struct PidFileLocking(PathBuf);
impl PidFileLocking {
    fn is_pid_active(pid: usize) -> bool {
        // same test as the real implementation (`ps -p <pid>`)
        let output = std::process::Command::new("ps").arg("-p").arg(pid.to_string()).output().expect("ps");
        String::from_utf8_lossy(&output.stdout).contains(&format!("{pid} "))
    }
}
include!("sliced.rs");

fn main() {
    let args: Vec<String> = std::env::args().collect();
    let lock = PidFileLocking(user_forc_directory().join(".lsp-locks").join("f.lock"));
    if args.iter().any(|a| a == "prelock") {
        // pre-state "held by this process": take the flag first, without stepping
        let saved = std::env::var("C25_STEP").unwrap_or_default();
        std::env::set_var("C25_STEP", "0");
        lock.lock().expect("prelock");
        std::env::set_var("C25_STEP", saved);
    }
    let res = match args[1].as_str() {
        "lock" => format!("{:?}", lock.lock().map_err(|e| e.to_string())),
        "release" => format!("{:?}", lock.release().map_err(|e| e.to_string())),
        "is_locked" => format!("{}", lock.is_locked()),
        "cleanup" => format!("{:?}", PidFileLocking::cleanup_stale_files().map(|v| v.len()).map_err(|e| e.to_string())),
        other => panic!("unknown op {other}"),
    };
    println!("RESULT pid={} op={} -> {}", std::process::id(), args[1], res);
    std::fs::write(ctl_dir().join(format!("result_{}", std::process::id())), &res).unwrap();
    if args.get(2).map(|s| s == "hold").unwrap_or(false) {
        // stay alive (a live owner) until told to exit
        let bye = ctl_dir().join(format!("exit_{}", std::process::id()));
        while !bye.exists() { std::thread::sleep(std::time::Duration::from_millis(5)); }
    }
}
