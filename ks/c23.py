"""C23: LSP incremental document sync — Kani over TextDocument::{apply_change, validate_range,
position_to_index, calculate_line_offsets} sliced verbatim from sway-lsp.  Documents and line
numbers are enumerated; both `character` offsets of the range are symbolic over all of u32.
`String::replace_range` is replaced by its documented contract (panic conditions asserted, the
call recorded); the oracle is a precomputed table UTF-16 position -> byte offset."""
import re
from . import slicer as S
from .kani import Crate, Harness, harness_attrs

SHIMS = r'''
#[derive(Debug, Clone, Copy, PartialEq, Eq, Default)] pub struct Position { pub line: u32, pub character: u32 }
impl Position { pub fn new(line: u32, character: u32) -> Self { Position { line, character } } }
#[derive(Debug, Clone, Copy, PartialEq, Eq, Default)] pub struct Range { pub start: Position, pub end: Position }
impl Range { pub fn new(start: Position, end: Position) -> Self { Range { start, end } } }
#[derive(Debug, Clone, PartialEq)] pub struct TextDocumentContentChangeEvent { pub range: Option<Range>, pub range_length: Option<u32>, pub text: String }
#[derive(Debug, PartialEq)] pub enum DocumentError { InvalidRange { range: Range } }

pub static mut RR: (usize, usize, bool) = (0, 0, false);
/// contract of String::replace_range: std's documented panic conditions; the splice itself is trusted
pub fn stub_replace_range<R: std::ops::RangeBounds<usize>>(s: &mut String, range: R, _with: &str) {
    use std::ops::Bound::*;
    let start = match range.start_bound() { Included(&n) => n, Excluded(&n) => n + 1, Unbounded => 0 };
    let end = match range.end_bound() { Included(&n) => n + 1, Excluded(&n) => n, Unbounded => s.len() };
    assert!(start <= end, "replace_range: start > end");
    assert!(end <= s.len(), "replace_range: end out of bounds");
    assert!(s.is_char_boundary(start), "replace_range: start not on char boundary");
    assert!(s.is_char_boundary(end), "replace_range: end not on char boundary");
    unsafe { RR = (start, end, true); }
}
fn mkdoc(s: &str) -> TextDocument {
    let content = s.to_string();
    let line_offsets = TextDocument::calculate_line_offsets(&content);
    TextDocument { version: 1, uri: String::new(), content, line_offsets }
}
'''

DOCS_QUICK = ['', 'ab', 'a\nb', 'a\r\nb', 'aé\nb\U0001F600', 'a€', 'a\U0001F600b\n']
ALPHA = ['a', '\n', '\r', 'é', '€', '\U0001F600']


def docs_for(tier, seed=0):
    if tier == 'quick':
        return DOCS_QUICK
    out = list(DOCS_QUICK)
    import itertools
    import random
    for n in (1, 2):
        for t in itertools.product(ALPHA, repeat=n):
            s = ''.join(t)
            if s not in out:
                out.append(s)
    rng = random.Random(seed * 41 + 9)
    triples = [''.join(t) for t in itertools.product(ALPHA, repeat=3)]
    rng.shuffle(triples)
    for s in triples[:24]:
        if s not in out:
            out.append(s)
    return out


def rust_str(s):
    return '"' + ''.join(f'\\u{{{ord(c):x}}}' for c in s) + '"'


def line_table(doc):
    """-> (line_starts, {(line, utf16col): byte offset}) for positions inside line content (EOL chars excluded)"""
    b = doc.encode('utf-8')
    starts = [0]
    for i, c in enumerate(b):
        if c == 0x0a:
            starts.append(i + 1)
    table = {}
    for li, st in enumerate(starts):
        end = starts[li + 1] if li + 1 < len(starts) else len(b)
        line = b[st:end].decode('utf-8')
        content = line.rstrip('\n')
        if content.endswith('\r'):
            content = content[:-1]
        col = 0
        off = st
        table[(li, 0)] = st
        for ch in content:
            col += len(ch.encode('utf-16-le')) // 2
            off += len(ch.encode('utf-8'))
            table[(li, col)] = off
    return starts, table


def build(tier, seed=0):
    unlocated, sliced, harnesses = [], [], []
    lib = SHIMS
    try:
        text = S.read('sway-lsp/src/core/document.rs')
        m = re.search(r'pub struct TextDocument \{.*?\n\}', text, re.S)
        if not m:
            raise S.Unlocated('struct TextDocument')
        imp = S.extract_impl(text, r'TextDocument\s*')
        methods = [S.extract_fn(imp, n, with_attrs=False) for n in ('apply_change', 'validate_range', 'position_to_index', 'calculate_line_offsets')]
        lib += '#[derive(Debug, Clone)]\n' + m.group(0) + '\nimpl TextDocument {\n' + '\n\n'.join(methods) + '\n}\n'
        sliced.append('sway-lsp/src/core/document.rs: struct TextDocument; TextDocument::{apply_change, validate_range, position_to_index, calculate_line_offsets} (verbatim)')
    except S.Unlocated as e:
        return Crate('C23', 'c23_lsp', lib, []), [f'TextDocument: {e}'], sliced

    stubs = [('alloc::string::String::replace_range', 'stub_replace_range')]
    for di, doc in enumerate(docs_for(tier, seed)):
        starts, table = line_table(doc)
        nlines = len(starts)
        blen = len(doc.encode('utf-8'))
        unwind = blen + 4
        # table as a Rust match
        arms = ' '.join(f'({l}, {c}) => Some({o}),' for (l, c), o in sorted(table.items()))
        lib += f'fn table{di}(line: u32, col: u32) -> Option<usize> {{ match (line, col) {{ {arms} _ => None }} }}\n'
        for l0 in range(nlines + 1):
            # (1) position_to_index against the table
            name = f'd{di}_pos_l{l0}'
            h = Harness(name, unwind=unwind, note=f'doc {doc!r}: position_to_index(line {l0}, any u32 character) equals the UTF-16 table and is a char boundary <= len',
                        timeout=600, meta={'doc': doc, 'kind': 'pos', 'line': l0})
            body = (f'    let d = mkdoc({rust_str(doc)});\n    let c: u32 = kani::any();\n'
                    f'    let i = d.position_to_index(Position::new({l0}, c));\n'
                    f'    if let Some(want) = table{di}({l0}, c) {{ assert!(i == want, "position_to_index disagrees with the UTF-16 table"); }}\n'
                    f'    kani::cover!(true);\n')
            lib += harness_attrs(h) + f'pub fn {name}() {{\n{body}}}\n'
            harnesses.append(h)
            for l1 in range(nlines + 1):
                name = f'd{di}_apply_l{l0}_l{l1}'
                h = Harness(name, unwind=unwind + 2, stubs=stubs, timeout=900,
                            note=f'doc {doc!r}: apply_change with range (line {l0}, any)..(line {l1}, any): no panic; valid UTF-16 positions are spliced at the table offsets; Err leaves the document alone',
                            meta={'doc': doc, 'kind': 'apply', 'l0': l0, 'l1': l1})
                body = (f'    let mut d = mkdoc({rust_str(doc)});\n    let c0: u32 = kani::any();\n    let c1: u32 = kani::any();\n'
                        f'    let r = Range::new(Position::new({l0}, c0), Position::new({l1}, c1));\n'
                        f'    let ch = TextDocumentContentChangeEvent {{ range: Some(r), range_length: None, text: String::from("x") }};\n'
                        f'    let res = d.apply_change(&ch);\n'
                        f'    let orig = {rust_str(doc)};\n'
                        f'    if let (Some(s), Some(e)) = (table{di}({l0}, c0), table{di}({l1}, c1)) {{\n'
                        f'        if s <= e {{\n'
                        f'            assert!(res.is_ok(), "valid range rejected");\n'
                        f'            #[cfg(kani)] unsafe {{ assert!(RR == (s, e, true), "edit applied at the wrong byte offsets"); }}\n'
                        f'            #[cfg(not(kani))] {{ let mut want = String::from(&orig[..s]); want.push_str("x"); want.push_str(&orig[e..]); assert!(d.content == want, "edit applied at the wrong byte offsets"); }}\n'
                        f'        }}\n    }}\n'
                        f'    if res.is_err() {{\n'
                        f'        #[cfg(kani)] unsafe {{ assert!(!RR.2, "document modified although the change was rejected"); }}\n'
                        f'        #[cfg(not(kani))] {{ assert!(d.content == orig, "document modified although the change was rejected"); }}\n'
                        f'    }}\n    kani::cover!(true);\n')
                lib += harness_attrs(h) + f'pub fn {name}() {{\n{body}}}\n'
                harnesses.append(h)
    # full-document change (no quantifier): concrete
    name = 'full_change'
    h = Harness(name, unwind=8, note='range: None replaces the whole document (concrete)', meta={'kind': 'full'})
    body = ('    let mut d = mkdoc("a\\nb");\n    let ch = TextDocumentContentChangeEvent { range: None, range_length: None, text: String::from("xy\\nz") };\n'
            '    assert!(d.apply_change(&ch).is_ok());\n    assert!(d.content.len() == 4);\n    assert!(d.line_offsets.len() == 2 && d.line_offsets[1] == 3);\n    kani::cover!(true);\n')
    lib += harness_attrs(h) + f'pub fn {name}() {{\n{body}}}\n'
    harnesses.append(h)
    return Crate('C23', 'c23_lsp', lib, harnesses), unlocated, sliced
