"""C06 (and the rule table of C07): compile-time evaluation vs FuelVM run-time semantics, decided by
Kani/CBMC over the folding code sliced verbatim from the current tree."""
import re
from . import slicer as S
from .kani import Crate, Harness, harness_attrs

VM_MODEL = r'''
// ---- FuelVM ALU model (default flags: panics on overflow / arithmetic error) -------------------
// transcribed from fuel-vm 0.66.4 interpreter/alu.rs + executors/opcodes_impl.rs; cross-checked on
// every run against the real interpreter on boundary operands (ks/vmcheck.py)
#[derive(Debug, Clone, Copy, PartialEq, Eq)]
pub enum VmOp { ADD, SUB, MUL, DIV, MOD, AND, OR, XOR, SLL, SRL, EXP, MLOG, EQ, GT, LT, NOT }
pub fn vm_exp(b: u64, c: u64) -> (u64, bool) {
    if let Ok(expo) = u32::try_from(c) { u64::overflowing_pow(b, expo) } else if b < 2 { (b, false) } else { (0, true) }
}
/// Ok(value) or Err(()) = the VM panics (the script reverts)
pub fn vm(op: VmOp, b: u64, c: u64) -> Result<u64, ()> {
    use VmOp::*;
    match op {
        ADD => { let r = b as u128 + c as u128; if r > u64::MAX as u128 { Err(()) } else { Ok(r as u64) } }
        SUB => { let (r, _o) = (b as u128).overflowing_sub(c as u128); if r > u64::MAX as u128 { Err(()) } else { Ok(r as u64) } }
        MUL => { let r = b as u128 * c as u128; if r > u64::MAX as u128 { Err(()) } else { Ok(r as u64) } }
        DIV => if c == 0 { Err(()) } else { Ok(b / c) },
        MOD => if c == 0 { Err(()) } else { Ok(b % c) },
        AND => Ok(b & c), OR => Ok(b | c), XOR => Ok(b ^ c),
        SLL => Ok(if let Ok(c) = u32::try_from(c) { b.checked_shl(c).unwrap_or_default() } else { 0 }),
        SRL => Ok(if let Ok(c) = u32::try_from(c) { b.checked_shr(c).unwrap_or_default() } else { 0 }),
        EXP => { let (r, o) = vm_exp(b, c); if o { Err(()) } else { Ok(r) } }
        MLOG => if b == 0 || c <= 1 { Err(()) } else { Ok(b.checked_ilog(c).unwrap() as u64) },
        EQ => Ok((b == c) as u64), GT => Ok((b > c) as u64), LT => Ok((b < c) as u64),
        NOT => Ok(!b),
    }
}
'''

IR_SHIMS = r'''
// ---- shims for the IR constant types (only the Uint paths are exercised) -----------------------
#[derive(Debug, Clone, PartialEq, PartialOrd)] pub struct U256;
#[derive(Debug, Clone, PartialEq, PartialOrd)] pub struct B256;
impl U256 {
    pub fn checked_add(&self, _o: &U256) -> Option<U256> { None }
    pub fn checked_sub(&self, _o: &U256) -> Option<U256> { None }
    pub fn checked_mul(&self, _o: &U256) -> Option<U256> { None }
    pub fn checked_div(&self, _o: &U256) -> Option<U256> { None }
    pub fn checked_rem(&self, _o: &U256) -> Option<U256> { None }
    pub fn checked_shl(&self, _o: &u64) -> Option<U256> { None }
    pub fn shr(&self, _o: &u64) -> U256 { U256 }
    pub fn rem(&self, _o: &U256) -> U256 { U256 }
}
impl<'a> std::ops::BitAnd<&'a U256> for &'a U256 { type Output = U256; fn bitand(self, _: &U256) -> U256 { U256 } }
impl<'a> std::ops::BitOr<&'a U256> for &'a U256 { type Output = U256; fn bitor(self, _: &U256) -> U256 { U256 } }
impl<'a> std::ops::BitXor<&'a U256> for &'a U256 { type Output = U256; fn bitxor(self, _: &U256) -> U256 { U256 } }
impl<'a> std::ops::Not for &'a U256 { type Output = U256; fn not(self) -> U256 { U256 } }
#[derive(Debug, Clone, PartialEq)]
pub enum ConstantValue { Undef, Unit, Bool(bool), Uint(u64), U256(U256), B256(B256) }
#[derive(Debug, Clone, Copy, PartialEq, Eq)]
pub enum BinaryOpKind { Add, Sub, Mul, Div, And, Or, Xor, Mod, Rsh, Lsh }
pub struct ShimContent { pub value: ConstantValue }
pub struct ShimConst(pub ShimContent);
impl ShimConst { pub fn get_content(&self, _c: &()) -> &ShimContent { &self.0 } }
#[derive(Debug, Clone, Copy, PartialEq, Eq)]
pub enum Intrinsic { Add, Sub, Mul, Div, Mod, And, Or, Xor, Lsh, Rsh, Not, Gt, Lt, Eq }
pub struct IntrinsicShim { pub kind: Intrinsic }
'''

BIN_OPS = [('Add', 'ADD'), ('Sub', 'SUB'), ('Mul', 'MUL'), ('Div', 'DIV'), ('Mod', 'MOD'), ('And', 'AND'), ('Or', 'OR'),
           ('Xor', 'XOR'), ('Lsh', 'SLL'), ('Rsh', 'SRL')]

# how the obligation "compile-time value == what the VM computes, and the VM does not panic" is
# discharged per VM op: directly, or (division) through the defining lemma.
def obligation(vmop, l, r, v):
    if vmop == 'DIV':
        return (f'assert!({r} != 0); let p = ({v} as u128) * ({r} as u128); '
                f'assert!(p <= {l} as u128); assert!(({l} as u128) - p < {r} as u128);')
    return f'assert!(vm(VmOp::{vmop}, {l}, {r}) == Ok({v}));'


MOD_BOUND = {'quick': '    kani::assume(l < (1u64 << 16) && r < (1u64 << 8));\n', 'thorough': '    kani::assume(l < (1u64 << 32) && r < (1u64 << 16));\n'}


def build(tier, table):
    """-> (Crate, unlocated list, sliced description)"""
    lib = VM_MODEL + IR_SHIMS
    harnesses = []
    unlocated = []
    sliced = []

    # (a) IR combine_binary_op: the whole match over (op, val1, val2)
    try:
        text = S.read('sway-ir/src/optimize/constants.rs')
        fn = S.extract_fn(text, 'combine_binary_op')
        whole, block = S.extract_block_after(fn, r'let v = match \(op, &val1\.value, &val2\.value\) ')
        lib += ('\npub fn ir_fold_binary(op: &BinaryOpKind, val1: &ShimContent, val2: &ShimContent) -> Option<ConstantValue> {\n'
                '    use BinaryOpKind::*;\n    use ConstantValue::*;\n    ' + whole + ';\n    v\n}\n')
        sliced.append('sway-ir/src/optimize/constants.rs: combine_binary_op match block (verbatim)')
        for irop, vmop in BIN_OPS:
            name = f'ir_fold_{irop.lower()}'
            h = Harness(name, note=f'IR const-folding {irop} on u64 vs VM {vmop}', timeout=900 if vmop in ('MUL', 'DIV', 'MOD') else 300,
                        meta={'kind': 'ir_binary', 'irop': irop, 'vmop': vmop})
            body = (f'    let l: u64 = kani::any();\n    let r: u64 = kani::any();\n'
                    + (MOD_BOUND[tier] if vmop == 'MOD' else '') +
                    f'    let a = ShimContent {{ value: ConstantValue::Uint(l) }};\n    let b = ShimContent {{ value: ConstantValue::Uint(r) }};\n'
                    f'    match ir_fold_binary(&BinaryOpKind::{irop}, &a, &b) {{\n'
                    f'        Some(ConstantValue::Uint(v)) => {{ {obligation(vmop, "l", "r", "v")} kani::cover!(true); }}\n'
                    f'        Some(_) => panic!("folded to a non-integer"),\n        None => {{}}\n    }}\n')
            lib += harness_attrs(h) + f'pub fn {name}() {{\n{body}}}\n'
            harnesses.append(h)
    except S.Unlocated as e:
        unlocated.append(f'IR combine_binary_op: {e}')

    # (b) IR combine_unary_op: Not with the width mask
    try:
        fn = S.extract_fn(text, 'combine_unary_op')
        m = re.search(r'let max = match width \{.*?\};\s*Some\(Uint\(\(!v\) & max\)\)', fn, re.S)
        if not m:
            raise S.Unlocated('width-mask block of Not not found')
        lib += ('\npub fn ir_fold_not(v: &u64, width: u64) -> Option<ConstantValue> {\n    use ConstantValue::*;\n    ' + m.group(0) + '\n}\n')
        sliced.append('sway-ir/src/optimize/constants.rs: combine_unary_op Not width-mask block (verbatim)')
        for w in (8, 16, 32, 64):
            name = f'ir_fold_not_u{w}'
            h = Harness(name, note=f'IR const-folding Not on u{w}: equals what std `!` computes at run time (VM NOT then AND mask)', meta={'kind': 'ir_not', 'width': w})
            mask = f'0x{(1 << w) - 1:x}u64'
            body = (f'    let v: u64 = kani::any();\n    kani::assume(v <= {mask});\n'
                    f'    match ir_fold_not(&v, {w}) {{\n'
                    f'        Some(ConstantValue::Uint(x)) => {{ assert!(vm(VmOp::AND, vm(VmOp::NOT, v, 0).unwrap(), {mask}) == Ok(x)); kani::cover!(true); }}\n'
                    f'        _ => panic!("Not on a uint must fold"),\n    }}\n')
            lib += harness_attrs(h) + f'pub fn {name}() {{\n{body}}}\n'
            harnesses.append(h)
    except S.Unlocated as e:
        unlocated.append(f'IR combine_unary_op: {e}')

    # (c) IR combine_cmp: GreaterThan / LessThan blocks
    try:
        fn = S.extract_fn(text, 'combine_cmp')
        blocks = S.extract_all_blocks_after(fn, r'let r = match \(\s*&val1\.get_content\(context\)\.value,\s*&val2\.get_content\(context\)\.value,\s*\) ')
        preds = re.findall(r'Predicate::(GreaterThan|LessThan) =>', fn)
        for (whole, _b, _pos), pred in zip(blocks, preds):
            fname = f'ir_cmp_{pred.lower()}'
            lib += (f'\npub fn {fname}(val1: &ShimConst, val2: &ShimConst, context: &()) -> bool {{\n    use ConstantValue::*;\n    ' + whole + ';\n    r\n}\n')
            vmop = 'GT' if pred == 'GreaterThan' else 'LT'
            h = Harness(fname + '_h', note=f'IR folding of cmp {pred} vs VM {vmop}', meta={'kind': 'ir_cmp', 'pred': pred})
            body = ('    let l: u64 = kani::any();\n    let r: u64 = kani::any();\n'
                    '    let a = ShimConst(ShimContent { value: ConstantValue::Uint(l) });\n    let b = ShimConst(ShimContent { value: ConstantValue::Uint(r) });\n'
                    f'    let v = {fname}(&a, &b, &());\n    assert!(vm(VmOp::{vmop}, l, r) == Ok(v as u64));\n    kani::cover!(true);\n')
            lib += harness_attrs(h) + f'pub fn {h.name}() {{\n{body}}}\n'
            harnesses.append(h)
        sliced.append('sway-ir/src/optimize/constants.rs: combine_cmp GreaterThan/LessThan match blocks (verbatim)')
    except S.Unlocated as e:
        unlocated.append(f'IR combine_cmp: {e}')

    # (d) const_eval.rs: the Uint arms of the arithmetic / bitwise / shift intrinsics
    try:
        ctext = S.read('sway-core/src/ir_generation/const_eval.rs')
        fn = S.extract_fn(ctext, 'const_eval_intrinsic')
        arms = []
        for m in re.finditer(r'\(Uint\(arg1\), Uint\(ref arg2\)\) => \{', fn):
            rest = fn[m.end():]
            mm = re.search(r'let result = match intrinsic\.kind ', rest)
            if not mm:
                continue
            brace = rest.find('{', mm.end() - 1)
            end = S.match_brace(rest, brace)
            arms.append(rest[mm.start():end + 1])
        if len(arms) < 3:
            raise S.Unlocated(f'expected 3 Uint arms in const_eval_intrinsic, found {len(arms)}')
        lib += '\nuse std::ops::{BitAnd, BitOr, BitXor, Not, Rem, Shr};\n'
        for i, arm in enumerate(arms):
            lib += (f'\npub fn ce_arm{i}(intrinsic: &IntrinsicShim, arg1: &u64, arg2: &u64) -> Option<u64> {{\n    ' + arm + ';\n    result\n}\n')
        sliced.append('sway-core/src/ir_generation/const_eval.rs: const_eval_intrinsic `let result = match intrinsic.kind {..}` of each (Uint, Uint) arm (verbatim)')
        kinds = {'Add': 'ADD', 'Sub': 'SUB', 'Mul': 'MUL', 'Div': 'DIV', 'Mod': 'MOD', 'And': 'AND', 'Or': 'OR', 'Xor': 'XOR', 'Lsh': 'SLL', 'Rsh': 'SRL'}
        for i, arm in enumerate(arms):
            for k in re.findall(r'Intrinsic::(\w+) =>', arm):
                if k not in kinds:
                    continue
                vmop = kinds[k]
                name = f'ce_{k.lower()}'
                h = Harness(name, note=f'const_eval intrinsic {k} on u64 vs VM {vmop}', timeout=900 if vmop in ('MUL', 'DIV', 'MOD') else 300,
                            meta={'kind': 'const_eval', 'intrinsic': k, 'vmop': vmop})
                body = ('    let l: u64 = kani::any();\n    let r: u64 = kani::any();\n'
                        + (MOD_BOUND[tier] if vmop == 'MOD' else '') +
                        f'    let i = IntrinsicShim {{ kind: Intrinsic::{k} }};\n'
                        f'    if let Some(v) = ce_arm{i}(&i, &l, &r) {{ {obligation(vmop, "l", "r", "v")} kani::cover!(true); }}\n')
                lib += harness_attrs(h) + f'pub fn {name}() {{\n{body}}}\n'
                harnesses.append(h)
        # Not: per-width arm
        m = re.search(r'let n = match arg\s*\.get_content\(lookup\.context\)\s*\.ty\s*\.get_uint_width\(lookup\.context\)\s*\{(.*?)\n\s*\};', fn, re.S)
        if m:
            lib += ('\npub fn ce_not(n: &u64, width: Option<u64>) -> u64 {\n    let n = match width {' + m.group(1) + '\n    };\n    n\n}\n')
            sliced.append('sway-core/src/ir_generation/const_eval.rs: Not per-width arms (verbatim, scrutinee replaced by the width)')
            for w in (8, 16, 32, 64):
                mask = f'0x{(1 << w) - 1:x}u64'
                name = f'ce_not_u{w}'
                h = Harness(name, note=f'const_eval __not on u{w} vs std `!` at run time (NOT then AND mask)', meta={'kind': 'ce_not', 'width': w})
                body = (f'    let v: u64 = kani::any();\n    kani::assume(v <= {mask});\n'
                        f'    let x = ce_not(&v, Some({w}));\n    assert!(vm(VmOp::AND, vm(VmOp::NOT, v, 0).unwrap(), {mask}) == Ok(x));\n    kani::cover!(true);\n')
                lib += harness_attrs(h) + f'pub fn {name}() {{\n{body}}}\n'
                harnesses.append(h)
        else:
            unlocated.append('const_eval Not arms')
    except S.Unlocated as e:
        unlocated.append(f'const_eval_intrinsic: {e}')

    # (e) asm constant_propagate: both_known functions and algebraic rules, from the parsed table
    try:
        atext = S.read('sway-core/src/asm_generation/fuel/optimizations/constant_propagate.rs')
        local_fns = set()
        for e in table:
            f = e['both_known']
            if f and '::' not in f and f not in local_fns:
                try:
                    lib += '\n' + S.extract_fn(atext, f) + '\n'
                    local_fns.add(f)
                except S.Unlocated as ex:
                    unlocated.append(f'asm both_known fn {f}: {ex}')
        sliced.append('constant_propagate.rs: both_known helper fns (verbatim) and the transform_operator! table (parsed)')
        for e in table:
            op = e['op']
            if op == 'MROO':
                continue  # floating point in checked_nth_root: outside (stated)
            f = e['both_known']
            if f and ('::' in f or f in local_fns):
                name = f'asm_both_{op.lower()}'
                heavy = op in ('MUL', 'DIV', 'MOD', 'EXP', 'MLOG')
                h = Harness(name, note=f'asm constprop both_known {f} vs VM {op}', timeout=1200 if heavy else 300, unwind=None,
                            meta={'kind': 'asm_both', 'op': op, 'fn': f})
                extra = ''
                if op == 'MOD':
                    extra = MOD_BOUND[tier]
                if op == 'EXP':
                    extra = '    kani::assume(r <= 4 && l < (1u64 << 8));\n' if tier == 'quick' else '    kani::assume(r <= 8 && l < (1u64 << 16));\n'
                    h.unwind = 6
                if op == 'MLOG':
                    extra = '    kani::assume(r <= 4 && l < 256);\n' if tier == 'quick' else '    kani::assume(r <= 16 && l < (1u64 << 16));\n'
                    h.unwind = 10 if tier == 'quick' else 18
                obl = obligation(op, 'l', 'r', 'raw')
                body = ('    let l: u64 = kani::any();\n    let r: u64 = kani::any();\n' + extra +
                        f'    let folded = (|| -> Option<u64> {{ let raw: u64 = {f}(l, r.try_into().ok()?)?.into(); Some(raw) }})();\n'
                        f'    if let Some(raw) = folded {{ {obl} kani::cover!(true); }}\n')
                lib += harness_attrs(h) + f'pub fn {name}() {{\n{body}}}\n'
                harnesses.append(h)
            for side, c, x in e['rules']:
                name = f'asm_rule_{op.lower()}_{side}{c}_{x}'
                h = Harness(name, note=f'asm constprop rule {op}: if {side} is {c} assign {x}', timeout=300,
                            unwind=34 if op == 'EXP' else None,
                            meta={'kind': 'asm_rule', 'op': op, 'side': side, 'const': c, 'assign': x})
                lr = (f'{c}u64', 'x') if side == 'left' else ('x', f'{c}u64')
                want = {'left': lr[0], 'right': lr[1]}.get(x, f'{x}u64')
                body = (f'    let x: u64 = kani::any();\n    assert!(vm(VmOp::{op}, {lr[0]}, {lr[1]}) == Ok({want}));\n    kani::cover!(true);\n')
                if op in ('MROO',):
                    continue
                lib += harness_attrs(h) + f'pub fn {name}() {{\n{body}}}\n'
                harnesses.append(h)
    except S.Unlocated as e:
        unlocated.append(f'asm constant_propagate: {e}')

    lib += '''
pub fn vm_by_name(op: &str, b: u64, c: u64) -> Option<Result<u64, ()>> {
    use VmOp::*;
    let o = match op { "ADD" => ADD, "SUB" => SUB, "MUL" => MUL, "DIV" => DIV, "MOD" => MOD, "AND" => AND, "OR" => OR, "XOR" => XOR,
        "SLL" => SLL, "SRL" => SRL, "EXP" => EXP, "MLOG" => MLOG, "EQ" => EQ, "GT" => GT, "LT" => LT, "NOT" => NOT, _ => return None };
    Some(vm(o, b, c))
}
'''
    vmmodel = '''
use std::io::BufRead;
fn main() {
    for line in std::io::stdin().lock().lines() {
        let line = line.unwrap();
        let p: Vec<&str> = line.split_whitespace().collect();
        if p.len() != 3 { continue; }
        let (b, c): (u64, u64) = (p[1].parse().unwrap(), p[2].parse().unwrap());
        match HARNESS_CRATE::vm_by_name(p[0], b, c) {
            Some(Ok(v)) => println!("ok {}", v),
            Some(Err(())) => println!("panic"),
            None => println!("unknown"),
        }
    }
}
'''
    for h in harnesses:
        h.timeout = min(h.timeout, 420) if tier == 'quick' else max(h.timeout, 1800)
        vmop = h.meta.get('vmop') or h.meta.get('op')
        if h.meta.get('kind') in ('ir_binary', 'const_eval', 'asm_both'):
            if vmop == 'MOD':
                h.note += ' [bound: ' + MOD_BOUND[tier].strip() + ']'
            elif vmop == 'DIV':
                h.note += ' [full 64-bit operands, via the division lemma q*d <= a < q*d + d]'
            elif vmop in ('EXP', 'MLOG') and h.meta.get('kind') == 'asm_both':
                h.note += ' [operands bounded, see harness source]'
            else:
                h.note += ' [full 64-bit operands]'
    return Crate('C06', 'c06_fold', lib, harnesses, extra_bins={'vmmodel': vmmodel}), unlocated, sliced
