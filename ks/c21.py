"""C21: reading any lock file never panics — Kani over the lock-file string parsers sliced verbatim
from forc-pkg. External parsers (Url, semver, Salt, Cid, PinnedId) are shimmed by functions
returning an arbitrary Ok/Err; confirmed counterexamples are replayed end-to-end through the real
`forc` binary on a crafted Forc.lock."""
import re
from . import slicer as S
from .kani import Crate, Harness, harness_attrs

PRELUDE = r'''
use std::str::FromStr;

macro_rules! anyhow { ($($t:tt)*) => { AnyErr }; }
macro_rules! bail { ($($t:tt)*) => { return Err(AnyErr) }; }
#[derive(Debug, Clone)] pub struct AnyErr;
impl std::fmt::Display for AnyErr { fn fmt(&self, f: &mut std::fmt::Formatter<'_>) -> std::fmt::Result { Ok(()) } }
pub mod anyhow { pub type Result<T, E = super::AnyErr> = std::result::Result<T, E>; }
type Result<T, E = AnyErr> = std::result::Result<T, E>;

/// external parser stand-in: any outcome is possible (their own panic-freedom is outside the claim)
macro_rules! arbitrary_parser {
    ($name:ident) => {
        #[derive(Debug, Clone, Default, PartialEq)] pub struct $name;
        impl std::str::FromStr for $name { type Err = AnyErr; fn from_str(_s: &str) -> std::result::Result<Self, AnyErr> {
            if kani::any::<bool>() { Ok($name) } else { Err(AnyErr) } } }
    };
}
pub mod fuel_tx { use super::*; arbitrary_parser!(Salt); }
pub mod semver { use super::*; arbitrary_parser!(Version); }
arbitrary_parser!(Url);
arbitrary_parser!(PinnedId);
pub mod cid { use super::*; arbitrary_parser!(Cid); pub type Error = AnyErr; }

// ---- std internals re-implemented naively (same results, CBMC-friendly) -------------------------
pub fn naive_memchr(x: u8, text: &[u8]) -> Option<usize> {
    let mut i = 0;
    while i < text.len() { if text[i] == x { return Some(i); } i += 1; }
    None
}
pub fn naive_memrchr(x: u8, text: &[u8]) -> Option<usize> {
    let mut i = text.len();
    while i > 0 { i -= 1; if text[i] == x { return Some(i); } }
    None
}
#[cfg(kani)]
pub fn naive_find<P: std::str::pattern::Pattern>(s: &str, pat: P) -> Option<usize> {
    let needle: &str = match pat.as_utf8_pattern() {
        Some(std::str::pattern::Utf8Pattern::StringPattern(b)) => b,
        _ => panic!("unsupported pattern in stub"),
    };
    let hb = s.as_bytes();
    let nb = needle.as_bytes();
    if nb.len() > hb.len() { return None; }
    let mut i = 0;
    while i + nb.len() <= hb.len() {
        let mut j = 0;
        let mut ok = true;
        while j < nb.len() { if hb[i + j] != nb[j] { ok = false; break; } j += 1; }
        if ok { return Some(i); }
        i += 1;
    }
    None
}
fn sym_str<const N: usize>(prefix: &[u8], buf: &mut [u8]) -> usize {
    // buf = prefix ++ N symbolic ASCII bytes ; returns total length
    let mut i = 0;
    while i < prefix.len() { buf[i] = prefix[i]; i += 1; }
    let t: [u8; N] = kani::any();
    let mut k = 0;
    while k < N { kani::assume(t[k] < 0x80); buf[prefix.len() + k] = t[k]; k += 1; }
    prefix.len() + N
}
'''

MODS = {
    'path': ('forc-pkg/src/source/path.rs', r'''
    use super::*;
    #[derive(Debug, Clone)] pub struct Pinned { pub path_root: PinnedId }
    impl Pinned { pub const PREFIX: &'static str = "path"; }
    #[derive(Debug, Clone)] pub struct SourcePathPinnedParseError;
'''),
    'git': ('forc-pkg/src/source/git/mod.rs', r'''
    use super::*;
    #[derive(Debug, Clone)] pub enum Reference { Branch(String), Tag(String), Rev(String), DefaultBranch }
    #[derive(Debug, Clone)] pub struct Source { pub repo: Url, pub reference: Reference }
    #[derive(Debug, Clone)] pub struct Pinned { pub source: Source, pub commit_hash: String }
    impl Pinned { pub const PREFIX: &'static str = "git"; }
    #[derive(Debug, Clone)] pub enum PinnedParseError { Prefix, Url, Reference, CommitHash }
'''),
    'ipfs': ('forc-pkg/src/source/ipfs.rs', r'''
    use super::*;
    #[derive(Debug, Clone)] pub struct Cid(pub cid::Cid);
    #[derive(Debug, Clone)] pub struct Pinned(pub Cid);
    impl Pinned { pub const PREFIX: &'static str = "ipfs"; }
    #[derive(Debug, Clone)] pub enum PinnedParseError { Prefix, Cid(cid::Error) }
'''),
    'reg': ('forc-pkg/src/source/reg/mod.rs', r'''
    use super::*;
    pub type Cid = cid::Cid;
    #[derive(Debug, Clone)] pub enum Namespace { Flat, Domain(String) }
    #[derive(Debug, Clone)] pub struct Source { pub name: String, pub version: semver::Version, pub namespace: Namespace }
    #[derive(Debug, Clone)] pub struct Pinned { pub source: Source, pub cid: Cid }
    impl Pinned { pub const PREFIX: &'static str = "registry"; }
    #[derive(Debug, Clone)] pub enum PinnedParseError { Prefix, PackageName, PackageVersion, Cid, Namespace }
'''),
}
EXTRA_FNS = {'git': ['validate_git_commit_hash'], 'reg': ['validate_cid']}
PREFIX = {'path': 'path+', 'git': 'git+', 'ipfs': 'ipfs+', 'reg': 'registry+'}

COMMON_STUBS = [('core::slice::memchr::memchr', 'naive_memchr'), ('core::slice::memchr::memrchr', 'naive_memrchr'),
                ('str::find', 'naive_find')]


def build(tier):
    lib = PRELUDE
    unlocated, sliced, harnesses = [], [], []
    # ---------------- parse_pkg_dep_line
    try:
        text = S.read('forc-pkg/src/lock.rs')
        fn = S.extract_fn(text, 'parse_pkg_dep_line', with_attrs=False)
        m = re.search(r"type ParsedPkgLine<'a> = [^;]*;", text)
        if not m:
            raise S.Unlocated('type ParsedPkgLine')
        lib += '\npub mod lock {\n    use super::*;\n    ' + m.group(0) + '\n    pub ' + fn + '\n}\n'
        sliced.append('forc-pkg/src/lock.rs: parse_pkg_dep_line, ParsedPkgLine (verbatim)')
        lens = [0, 1, 2, 3, 4] if tier == 'quick' else [0, 1, 2, 3, 4, 5, 6]
        for n in lens:
            name = f'dep_line_ascii{n}'
            h = Harness(name, unwind=n + 3, stubs=COMMON_STUBS[:2], timeout=600 if tier == 'quick' else 2400,
                        note=f'parse_pkg_dep_line on every ASCII string of length {n}', meta={'parser': 'dep_line', 'shape': 'ascii', 'len': n})
            body = (f'    let mut buf = [0u8; {max(n, 1)}];\n    let len = sym_str::<{n}>(b"", &mut buf);\n'
                    f'    let s = unsafe {{ std::str::from_utf8_unchecked(&buf[..len]) }};\n'
                    f'    let _ = lock::parse_pkg_dep_line(s);\n    kani::cover!(true);\n')
            lib += harness_attrs(h) + f'pub fn {name}() {{\n{body}}}\n'
            harnesses.append(h)
        # one multi-byte character (é = C3 A9) placed at each position of an otherwise symbolic ASCII string
        mb_lens = [2, 3] if tier == 'quick' else [2, 3, 4]
        for n in mb_lens:
            for pos in range(n + 1):
                name = f'dep_line_mb{n}_at{pos}'
                h = Harness(name, unwind=n + 5, stubs=COMMON_STUBS[:2], timeout=600 if tier == 'quick' else 2400,
                            note=f'parse_pkg_dep_line on {n} symbolic ASCII bytes with a 2-byte char inserted at position {pos}',
                            meta={'parser': 'dep_line', 'shape': 'multibyte', 'len': n, 'pos': pos})
                body = (f'    let t: [u8; {n}] = kani::any();\n    let mut buf = [0u8; {n + 2}];\n    let mut i = 0; let mut o = 0;\n'
                        f'    while i <= {n} {{ if i == {pos} {{ buf[o] = 0xC3; buf[o + 1] = 0xA9; o += 2; }} if i < {n} {{ kani::assume(t[i] < 0x80); buf[o] = t[i]; o += 1; }} i += 1; }}\n'
                        f'    let s = unsafe {{ std::str::from_utf8_unchecked(&buf[..]) }};\n'
                        f'    let _ = lock::parse_pkg_dep_line(s);\n    kani::cover!(true);\n')
                lib += harness_attrs(h) + f'pub fn {name}() {{\n{body}}}\n'
                harnesses.append(h)
    except S.Unlocated as e:
        unlocated.append(f'parse_pkg_dep_line: {e}')

    # ---------------- the four source parsers
    for mod, (rel, shim) in MODS.items():
        try:
            text = S.read(rel)
            imp = S.extract_impl(text, r'FromStr\s+for\s+Pinned')
            extra = ''
            for f in EXTRA_FNS.get(mod, []):
                extra += '    pub ' + S.extract_fn(text, f, with_attrs=False).replace('\n', '\n    ') + '\n'
            lib += f'\npub mod {mod} {{{shim}{extra}    ' + imp.replace('\n', '\n    ') + '\n}\n'
            sliced.append(f'{rel}: impl FromStr for Pinned' + (' + ' + ', '.join(EXTRA_FNS.get(mod, [])) if mod in EXTRA_FNS else '') + ' (verbatim)')
        except S.Unlocated as e:
            unlocated.append(f'{mod}: {e}')
            continue
        pfx = PREFIX[mod]
        lib += f'pub fn stub_format_{mod}(_a: std::fmt::Arguments<\'_>) -> String {{ String::from("{pfx}") }}\n'
        stubs = COMMON_STUBS + [('alloc::fmt::format', f'stub_format_{mod}')]
        heavy = mod == 'reg'
        free_lens = [1, 3] if tier == 'quick' else [1, 2, 3, 4]
        tail_lens = [0, 2] if tier == 'quick' else [0, 1, 2, 3, 4]
        if mod == 'git':
            tail_lens = [0, 2, 3] if tier == 'quick' else [0, 1, 2, 3, 4, 5]
        for n in free_lens:
            name = f'{mod}_free{n}'
            h = Harness(name, unwind=(max(len(pfx), n, 12) + 4) if mod == 'path' else max(len(pfx), n) + 3, stubs=stubs, timeout=(900 if heavy else 600) if tier == 'quick' else 3600,
                        note=f'{mod}::Pinned::from_str on every ASCII string of length {n} (prefix-absent paths)', meta={'parser': mod, 'shape': 'free', 'len': n})
            body = (f'    let mut buf = [0u8; {n}];\n    let len = sym_str::<{n}>(b"", &mut buf);\n'
                    f'    let s = unsafe {{ std::str::from_utf8_unchecked(&buf[..len]) }};\n'
                    f'    let _ = {mod}::Pinned::from_str(s);\n    kani::cover!(true);\n')
            lib += harness_attrs(h) + f'pub fn {name}() {{\n{body}}}\n'
            harnesses.append(h)
        for n in tail_lens:
            name = f'{mod}_tail{n}'
            tot = len(pfx) + n
            h = Harness(name, unwind=(max(tot, 12) + 4) if mod == 'path' else tot + 3, stubs=stubs, timeout=(900 if heavy else 600) if tier == 'quick' else 3600,
                        note=f'{mod}::Pinned::from_str on "{pfx}" followed by every ASCII string of length {n}', meta={'parser': mod, 'shape': 'tail', 'len': n})
            body = (f'    let mut buf = [0u8; {tot}];\n    let len = sym_str::<{n}>(b"{pfx}", &mut buf);\n'
                    f'    let s = unsafe {{ std::str::from_utf8_unchecked(&buf[..len]) }};\n'
                    f'    let _ = {mod}::Pinned::from_str(s);\n    kani::cover!(true);\n')
            lib += harness_attrs(h) + f'pub fn {name}() {{\n{body}}}\n'
            harnesses.append(h)
    # deeper shapes: the code behind the 40-character commit hash / 46-character cid checks is only reached
    # with a well-formed tail, so the tail is concrete and the component in front of it symbolic
    if 'git' in [m for m in MODS if f'pub mod {m} ' in lib]:
        lib += 'pub fn any_hash_verdict(_h: &str) -> Result<()> { if kani::any::<bool>() { Ok(()) } else { Err(AnyErr) } }\n'
        stubs = COMMON_STUBS + [('alloc::fmt::format', 'stub_format_git'), ('git::validate_git_commit_hash', 'any_hash_verdict')]
        for k in ([3, 6, 7] if tier == 'quick' else [0, 1, 2, 3, 4, 5, 6, 7, 8]):
            name = f'git_ref{k}'
            pre, post = 'git+u?', '#a'
            tot = len(pre) + k + len(post)
            h = Harness(name, unwind=tot + 3, stubs=stubs, timeout=1200 if tier == 'quick' else 3600,
                        note=f'git::Pinned::from_str on "git+u?" + every ASCII reference of length {k} without \'#\' + "#a"; validate_git_commit_hash stubbed to an arbitrary verdict so that the reference parsing behind it is reached',
                        meta={'parser': 'git', 'shape': 'ref', 'len': k, 'pre': pre, 'post': post, 'e2e_pre': 'git+http://a?', 'e2e_post': '#' + 'a' * 40})
            body = (f'    let mut buf = [0u8; {tot}];\n    let n = sym_str::<{k}>(b"{pre}", &mut buf);\n'
                    f'    let mut j = {len(pre)};\n    while j < n {{ kani::assume(buf[j] != b\'#\'); j += 1; }}\n'
                    f'    let post = b"{post}";\n    let mut i = 0;\n    while i < post.len() {{ buf[n + i] = post[i]; i += 1; }}\n'
                    f'    let s = unsafe {{ std::str::from_utf8_unchecked(&buf[..]) }};\n'
                    f'    let _ = git::Pinned::from_str(s);\n    kani::cover!(true);\n')
            lib += harness_attrs(h) + f'pub fn {name}() {{\n{body}}}\n'
            harnesses.append(h)
    if 'reg' in [m for m in MODS if f'pub mod {m} ' in lib]:
        lib += 'pub fn any_cid_verdict(_c: &str) -> bool { kani::any::<bool>() }\n'
        stubs = COMMON_STUBS + [('alloc::fmt::format', 'stub_format_reg'), ('reg::validate_cid', 'any_cid_verdict')]
        for k in ([2] if tier == 'quick' else [0, 1, 2, 3]):
            name = f'reg_ns{k}'
            pre = 'registry+n?1#Q'
            tot = len(pre) + k
            h = Harness(name, unwind=tot + 3, stubs=stubs, timeout=1800 if tier == 'quick' else 3600,
                        note=f'reg::Pinned::from_str on "registry+n?1#Q" followed by every ASCII string of length {k} (cid / namespace part); validate_cid stubbed to an arbitrary verdict',
                        meta={'parser': 'reg', 'shape': 'ref', 'len': k, 'pre': pre, 'post': '', 'e2e_pre': 'registry+n?1.0.0#Qm' + 'a' * 43, 'e2e_post': ''})
            body = (f'    let mut buf = [0u8; {tot}];\n    let _n = sym_str::<{k}>(b"{pre}", &mut buf);\n'
                    f'    let s = unsafe {{ std::str::from_utf8_unchecked(&buf[..]) }};\n'
                    f'    let _ = reg::Pinned::from_str(s);\n    kani::cover!(true);\n')
            lib += harness_attrs(h) + f'pub fn {name}() {{\n{body}}}\n'
            harnesses.append(h)
    return Crate('C21', 'c21_lock', lib, harnesses, features_nightly=('pattern',)), unlocated, sliced
