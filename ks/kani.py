"""KS runner: generated crate -> cargo kani per harness (capped), parse verdicts, fetch concrete
counterexamples (concrete playback), replay them natively (dev + release) through a kani shim."""
import json
import os
import re
import resource
import shutil
import subprocess
import sys
import time
from concurrent.futures import ThreadPoolExecutor

VERIF = os.path.dirname(os.path.dirname(os.path.abspath(__file__)))
WORK = os.path.join(VERIF, '.work', 'ks')
NCPU = int(os.environ.get('VERIF_JOBS', str(os.cpu_count() or 8)))

KANI_SHIM = r'''
// Native stand-in for the `kani` crate: replays recorded values (concrete playback format).
#[cfg(not(kani))]
pub mod kani {
    use std::cell::RefCell;
    use std::collections::VecDeque;
    thread_local! { pub static VALS: RefCell<VecDeque<Vec<u8>>> = RefCell::new(VecDeque::new()); }
    pub fn load(vals: Vec<Vec<u8>>) { VALS.with(|v| *v.borrow_mut() = vals.into()); }
    fn pop(n: usize) -> Vec<u8> {
        VALS.with(|v| v.borrow_mut().pop_front()).map(|mut b| { b.resize(n, 0); b }).unwrap_or_else(|| vec![0; n])
    }
    pub trait Arb: Sized { fn arb() -> Self; }
    impl Arb for u8 { fn arb() -> Self { pop(1)[0] } }
    impl Arb for bool { fn arb() -> Self { pop(1)[0] & 1 == 1 } }
    impl Arb for u16 { fn arb() -> Self { u16::from_le_bytes(pop(2).try_into().unwrap()) } }
    impl Arb for u32 { fn arb() -> Self { u32::from_le_bytes(pop(4).try_into().unwrap()) } }
    impl Arb for u64 { fn arb() -> Self { u64::from_le_bytes(pop(8).try_into().unwrap()) } }
    impl Arb for usize { fn arb() -> Self { usize::from_le_bytes(pop(8).try_into().unwrap()) } }
    impl<T: Arb, const N: usize> Arb for [T; N] { fn arb() -> Self { std::array::from_fn(|_| T::arb()) } }
    pub fn any<T: Arb>() -> T { T::arb() }
    pub fn assume(c: bool) { if !c { panic!("KANI_ASSUME_VIOLATED"); } }
    macro_rules! __kani_cover { ($($t:tt)*) => {}; }
    pub(crate) use __kani_cover as cover;
}
'''

REPLAY_BIN = r'''
// replay <harness> <json array of byte arrays>
#[cfg(kani)]
fn main() {}
#[cfg(not(kani))]
fn main() {
    let args: Vec<String> = std::env::args().collect();
    let vals: Vec<Vec<u8>> = parse(&args[2]);
    HARNESS_CRATE::kani::load(vals);
    let name = args[1].clone();
    let r = std::panic::catch_unwind(move || HARNESS_CRATE::run_harness(&name));
    match r {
        Ok(true) => println!("REPLAY: completed without panic"),
        Ok(false) => println!("REPLAY: unknown harness"),
        Err(e) => {
            let msg = e.downcast_ref::<String>().cloned().or_else(|| e.downcast_ref::<&str>().map(|s| s.to_string())).unwrap_or_default();
            if msg.contains("KANI_ASSUME_VIOLATED") { println!("REPLAY: assumption violated (values do not satisfy the harness preconditions)"); }
            else { println!("REPLAY: PANICKED: {}", msg); }
        }
    }
}
fn parse(s: &str) -> Vec<Vec<u8>> {
    // minimal parser for [[1,2],[3]]
    let mut out = vec![]; let mut cur: Option<Vec<u8>> = None; let mut num = String::new(); let mut depth = 0;
    for ch in s.chars() {
        match ch {
            '[' => { depth += 1; if depth == 2 { cur = Some(vec![]); } }
            ']' => { if depth == 2 { if !num.is_empty() { cur.as_mut().unwrap().push(num.parse().unwrap()); num.clear(); } out.push(cur.take().unwrap()); } depth -= 1; }
            ',' => { if depth == 2 && !num.is_empty() { cur.as_mut().unwrap().push(num.parse().unwrap()); num.clear(); } }
            c if c.is_ascii_digit() => num.push(c),
            _ => {}
        }
    }
    out
}
'''


class Harness:
    def __init__(self, name, unwind=None, stubs=(), note='', timeout=600, expect_reachable=True, meta=None):
        self.name = name
        self.unwind = unwind
        self.stubs = list(stubs)
        self.note = note
        self.timeout = timeout
        self.meta = meta or {}


class Crate:
    def __init__(self, pid, name, lib_rs, harnesses, deps='', features_nightly=(), extra_bins=None):
        self.extra_bins = extra_bins or {}
        self.pid = pid
        self.name = name
        self.lib_rs = lib_rs
        self.harnesses = harnesses
        self.deps = deps
        self.features_nightly = features_nightly
        self.dir = os.path.join(WORK, pid, name)

    def write(self):
        os.makedirs(os.path.join(self.dir, 'src', 'bin'), exist_ok=True)
        cargo = f'''[package]
name = "{self.name}"
version = "0.1.0"
edition = "2021"

[lib]
path = "src/lib.rs"

[[bin]]
name = "replay"
path = "src/bin/replay.rs"

{''.join(f'[[bin]]{chr(10)}name = "{b}"{chr(10)}path = "src/bin/{b}.rs"{chr(10)}{chr(10)}' for b in self.extra_bins)}[dependencies]
{self.deps}
[workspace]

[lints.rust]
unexpected_cfgs = {{ level = "allow", check-cfg = ['cfg(kani)'] }}
'''
        _write_if_changed(os.path.join(self.dir, 'Cargo.toml'), cargo)
        if os.path.exists('/repo/Cargo.lock') and self.deps.strip():
            shutil.copy('/repo/Cargo.lock', os.path.join(self.dir, 'Cargo.lock'))
        feats = ''.join(f'#![cfg_attr(kani, feature({f}))]\n' for f in self.features_nightly)
        table = '\n'.join(f'        "{h.name}" => {{ {h.name}(); true }}' for h in self.harnesses)
        lib = (feats + '#![allow(unused, dead_code, unused_imports, unreachable_code, clippy::all)]\n' + KANI_SHIM + self.lib_rs +
               f'\npub fn run_harness(name: &str) -> bool {{\n    match name {{\n{table}\n        _ => false,\n    }}\n}}\n')
        _write_if_changed(os.path.join(self.dir, 'src', 'lib.rs'), lib)
        _write_if_changed(os.path.join(self.dir, 'src', 'bin', 'replay.rs'), REPLAY_BIN.replace('HARNESS_CRATE', self.name))
        for b, text in self.extra_bins.items():
            _write_if_changed(os.path.join(self.dir, 'src', 'bin', b + '.rs'), text.replace('HARNESS_CRATE', self.name))


def _write_if_changed(p, text):
    if os.path.exists(p) and open(p).read() == text:
        return
    open(p, 'w').write(text)


def harness_attrs(h):
    s = '#[cfg_attr(kani, kani::proof)]\n'
    if h.unwind:
        s += f'#[cfg_attr(kani, kani::unwind({h.unwind}))]\n'
    for a, b in h.stubs:
        s += f'#[cfg_attr(kani, kani::stub({a}, {b}))]\n'
    return s


def _limits(mem_gb):
    def f():
        lim = mem_gb * 1024 * 1024 * 1024
        resource.setrlimit(resource.RLIMIT_AS, (lim, lim))
    return f


def run_kani(crate, h, playback=False, mem_gb=16, slot=0):
    """-> dict(status: success|failed|unwind|timeout|oom|error, failed_checks, seconds, vals)"""
    tdir = os.path.join(WORK, crate.pid, f'target-{crate.name}-{slot}')
    cmd = ['cargo', 'kani', '--harness', h.name, '--target-dir', tdir, '--exact']
    if h.stubs:
        cmd += ['-Z', 'stubbing']
    if playback:
        cmd += ['-Z', 'concrete-playback', '--concrete-playback=print']
    env = dict(os.environ)
    env['CARGO_NET_OFFLINE'] = 'true'
    env.pop('RUSTFLAGS', None)
    t = time.time()
    try:
        r = subprocess.run(cmd, cwd=crate.dir, env=env, text=True, stdout=subprocess.PIPE, stderr=subprocess.STDOUT,
                           timeout=h.timeout, preexec_fn=_limits(mem_gb))
        out = r.stdout
    except subprocess.TimeoutExpired as e:
        _kill_cbmc(tdir)
        return {'status': 'timeout', 'seconds': round(time.time() - t, 1), 'failed_checks': [], 'out': (e.stdout or '')[-2000:] if isinstance(e.stdout, str) else ''}
    secs = round(time.time() - t, 1)
    res = {'seconds': secs, 'failed_checks': [], 'out': out[-3000:]}
    fails = re.findall(r'Failed Checks: (.*)', out)
    res['failed_checks'] = fails[:10]
    if 'VERIFICATION:- SUCCESSFUL' in out:
        res['status'] = 'success'
    elif 'VERIFICATION:- FAILED' in out:
        if fails and all('unwinding assertion' in f for f in fails):
            res['status'] = 'unwind'
        elif re.search(r'Status: ERROR|out of memory|std::bad_alloc|MEMORY LIMIT', out, re.I):
            res['status'] = 'oom'
        else:
            res['status'] = 'failed'
    elif re.search(r'bad_alloc|out of memory|Cannot allocate memory', out, re.I):
        res['status'] = 'oom'
    else:
        res['status'] = 'error'
    m = re.search(r'Runtime decision procedure: ([0-9.]+)s', out)
    if m:
        res['solver_s'] = float(m.group(1))
    m = re.search(r'(\d+) variables, (\d+) clauses', out)
    if m:
        res['sat_vars'], res['sat_clauses'] = int(m.group(1)), int(m.group(2))
    m = re.search(r'\*\* (\d+) of (\d+) failed', out)
    if m:
        res['checks_failed'], res['checks_total'] = int(m.group(1)), int(m.group(2))
    m = re.search(r'\*\* (\d+) of (\d+) cover properties satisfied', out)
    if m:
        res['cover_sat'], res['cover_total'] = int(m.group(1)), int(m.group(2))
    if playback:
        all_vals = []
        for block in re.finditer(r'let concrete_vals: Vec<Vec<u8>> = vec!\[(.*?)\];', out, re.S):
            vals = []
            for vm in re.finditer(r'vec!\[([0-9, ]*)\]', block.group(1)):
                vals.append([int(x) for x in vm.group(1).replace(' ', '').split(',') if x])
            if vals not in all_vals:
                all_vals.append(vals)
        res['all_vals'] = all_vals
        res['vals'] = all_vals[0] if all_vals else []
    return res


def _kill_cbmc(tdir):
    subprocess.run(['pkill', '-f', tdir], check=False)


_native_built = {}


def build_native(crate):
    key = crate.dir
    if key in _native_built:
        return _native_built[key]
    env = dict(os.environ)
    env['CARGO_NET_OFFLINE'] = 'true'
    env.pop('RUSTFLAGS', None)
    tdir = os.path.join(WORK, crate.pid, f'target-native-{crate.name}')
    outs = {}
    for prof, flag in (('dev', []), ('release', ['--release'])):
        r = subprocess.run(['cargo', 'build', '--offline', '--bins', '--target-dir', tdir] + flag, cwd=crate.dir, env=env,
                           text=True, stdout=subprocess.PIPE, stderr=subprocess.STDOUT)
        if r.returncode != 0:
            raise RuntimeError('native build of harness crate failed:\n' + r.stdout[-3000:])
        outs[prof] = os.path.join(tdir, 'debug' if prof == 'dev' else 'release', 'replay')
    _native_built[key] = outs
    return outs


def replay_native(crate, hname, vals):
    """-> {'dev': line, 'release': line}"""
    bins = build_native(crate)
    out = {}
    for prof, b in bins.items():
        r = subprocess.run([b, hname, json.dumps(vals)], text=True, stdout=subprocess.PIPE, stderr=subprocess.PIPE, timeout=60)
        line = [l for l in r.stdout.splitlines() if l.startswith('REPLAY:')]
        out[prof] = line[0] if line else f'REPLAY: no verdict (exit {r.returncode}) {r.stderr[-300:]}'
    return out


def run_all(crate, tier, jobs=None):
    """run every harness of the crate; failing ones are re-run with concrete playback and replayed natively"""
    crate.write()
    jobs = jobs or max(1, min(NCPU // 2, len(crate.harnesses)))
    slots = list(range(jobs))
    import queue
    q = queue.Queue()
    for s in slots:
        q.put(s)

    def one(h):
        s = q.get()
        try:
            r = run_kani(crate, h, slot=s)
            if r['status'] == 'failed':
                r2 = run_kani(crate, h, playback=True, slot=s)
                r['vals'] = r2.get('vals', [])
                r['playback_status'] = r2['status']
                for vals in r2.get('all_vals', []):
                    try:
                        rep = replay_native(crate, h.name, vals)
                    except Exception as e:  # noqa
                        rep = {'error': str(e)[-500:]}
                    r['replay'] = rep
                    r['vals'] = vals
                    if any('PANICKED' in str(v) for v in rep.values()):
                        break
            return h, r
        finally:
            q.put(s)
    with ThreadPoolExecutor(max_workers=jobs) as ex:
        return list(ex.map(one, crate.harnesses))
