"""Text slicer: copies named items verbatim out of the current /repo sources. Items are located by
name and brace structure, never by line number. A missing anchor raises Unlocated (reported by
the caller as an `unlocated` obligation, not as an alarm)."""
import os
import re

REPO = os.environ.get('VERIF_REPO', '/repo')


class Unlocated(Exception):
    pass


def read(rel):
    p = os.path.join(REPO, rel)
    if not os.path.exists(p):
        raise Unlocated(f'file {rel} not found')
    return open(p).read()


def _skip_string(text, i):
    """text[i] == '"' -> index after the closing quote"""
    j = i + 1
    while j < len(text):
        if text[j] == '\\':
            j += 2
            continue
        if text[j] == '"':
            return j + 1
        j += 1
    return j


def match_brace(text, i, open_ch='{', close_ch='}'):
    """text[i] == open_ch -> index of the matching close_ch (skips strings, chars, comments)"""
    assert text[i] == open_ch, (text[i - 20:i + 20], open_ch)
    depth = 0
    j = i
    n = len(text)
    while j < n:
        c = text[j]
        if c == '"':
            j = _skip_string(text, j)
            continue
        if c == "'":
            # char literal or lifetime
            m = re.match(r"'(\\.|[^\\'])'", text[j:j + 4])
            if m:
                j += m.end()
                continue
            j += 1
            continue
        if text.startswith('//', j):
            k = text.find('\n', j)
            j = n if k < 0 else k
            continue
        if text.startswith('/*', j):
            k = text.find('*/', j)
            j = n if k < 0 else k + 2
            continue
        if c == open_ch:
            depth += 1
        elif c == close_ch:
            depth -= 1
            if depth == 0:
                return j
        j += 1
    raise Unlocated('unbalanced braces')


def extract_fn(text, name, with_attrs=True):
    """whole `fn name(...) ... { ... }` item, including leading attributes/doc comments"""
    m = re.search(r'^([ \t]*)((?:pub(?:\([a-z]+\))?\s+)?(?:const\s+)?(?:async\s+)?(?:unsafe\s+)?fn\s+' + re.escape(name) + r'\b)', text, re.M)
    if not m:
        raise Unlocated(f'fn {name} not found')
    start = m.start()
    if with_attrs:
        # walk back over attribute / doc lines
        lines_before = text[:start].split('\n')
        k = len(lines_before) - 1
        # lines_before[-1] is '' (start of the fn line)
        idx = start
        while k > 0:
            prev = lines_before[k - 1].strip()
            if prev.startswith('#[') or prev.startswith('///'):
                idx -= len(lines_before[k - 1]) + 1
                k -= 1
            else:
                break
        start = idx
    brace = text.find('{', m.end())
    # skip over where-clauses / return types that may contain no braces
    end = match_brace(text, brace)
    return text[start:end + 1]


def extract_block_after(text, anchor_regex, open_ch='{', flags=re.S):
    """the balanced {...} block that starts at the first open_ch after the anchor match;
    returns (anchor_text_plus_block, block_only)"""
    m = re.search(anchor_regex, text, flags)
    if not m:
        raise Unlocated(f'anchor /{anchor_regex}/ not found')
    brace = text.find(open_ch, m.end() - 1 if text[m.end() - 1] == open_ch else m.end())
    end = match_brace(text, brace, open_ch, {'{': '}', '(': ')', '[': ']'}[open_ch])
    return text[m.start():end + 1], text[brace:end + 1]


def extract_all_blocks_after(text, anchor_regex, flags=re.S):
    out = []
    for m in re.finditer(anchor_regex, text, flags):
        brace = text.find('{', m.end() - 1 if text[m.end() - 1] == '{' else m.end())
        end = match_brace(text, brace)
        out.append((text[m.start():end + 1], text[brace:end + 1], m.start()))
    if not out:
        raise Unlocated(f'anchor /{anchor_regex}/ not found')
    return out


def extract_impl(text, header_regex):
    """whole `impl ... { ... }` item whose header matches"""
    m = re.search(r'^impl\b[^{;]*' + header_regex + r'[^{;]*\{', text, re.M)
    if not m:
        raise Unlocated(f'impl /{header_regex}/ not found')
    brace = m.end() - 1
    end = match_brace(text, brace)
    return text[m.start():end + 1]


def extract_method(text, impl_header_regex, method):
    imp = extract_impl(text, impl_header_regex)
    return extract_fn(imp, method)
